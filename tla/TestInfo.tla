---------------------------- MODULE TestInfo ----------------------------
(* Lattice model of one artifact's TestInfo annotation (two check names A, B,
   three severities, three possible factors).  Every edge of the reachable
   state graph is replayed against util.SetTestResult / util.AttachFactors
   by pmc/props/c16.py (conformance); TLC checks monotonicity on the model. *)
EXTENDS Integers
VARIABLES eA, eB, weak, ver, f1, f2, f3, last
vars == <<eA, eB, weak, ver, f1, f2, f3, last>>

Max(a, b) == IF a > b THEN a ELSE b
\* entry encoding: 0 = absent, 1 + 3*result + severityIndex otherwise
Res(e) == (e - 1) \div 3
Sev(e) == (e - 1) % 3
Enc(r, s) == 1 + 3 * r + s
Merge(e, r, s) == IF e = 0 THEN Enc(r, s) ELSE Enc(Max(Res(e), r), Max(Sev(e), s))

Init == /\ eA \in {0, Enc(1, 0), Enc(0, 2), Enc(1, 2)}
        /\ eB = 0
        /\ weak \in {0, 1}
        /\ ver \in {0, 2}
        /\ f1 \in {0, 1}
        /\ f2 = 0 /\ f3 = 0
        /\ last = 0

SetA(r, s) == /\ eA' = Merge(eA, r, s)
              /\ weak' = Max(weak, r)
              /\ ver' = IF ver = 0 THEN 1 ELSE ver
              /\ last' = 1 + 3 * r + s
              /\ UNCHANGED <<eB, f1, f2, f3>>

SetB(r, s) == /\ eB' = Merge(eB, r, s)
              /\ weak' = Max(weak, r)
              /\ ver' = IF ver = 0 THEN 1 ELSE ver
              /\ last' = 7 + 3 * r + s
              /\ UNCHANGED <<eA, f1, f2, f3>>

Attach(a, b, c) == /\ a + b + c > 0
                   /\ f1' = Max(f1, a) /\ f2' = Max(f2, b) /\ f3' = Max(f3, c)
                   /\ last' = 12 + 4 * a + 2 * b + c
                   /\ UNCHANGED <<eA, eB, weak, ver>>

Next == \/ \E r \in 0..1, s \in 0..2 : SetA(r, s) \/ SetB(r, s)
        \/ \E a \in 0..1, b \in 0..1, c \in 0..1 : Attach(a, b, c)

Spec == Init /\ [][Next]_vars

TypeOK == /\ eA \in 0..6 /\ eB \in 0..6 /\ weak \in 0..1 /\ ver \in 0..2
          /\ f1 \in 0..1 /\ f2 \in 0..1 /\ f3 \in 0..1 /\ last \in 0..19

\* weak is set whenever a positive entry was ever recorded by a step of this behaviour
Monotone == [][/\ weak' >= weak
               /\ (eA # 0 => (eA' # 0 /\ Res(eA') >= Res(eA) /\ Sev(eA') >= Sev(eA)))
               /\ (eB # 0 => (eB' # 0 /\ Res(eB') >= Res(eB) /\ Sev(eB') >= Sev(eB)))
               /\ f1' >= f1 /\ f2' >= f2 /\ f3' >= f3
               /\ (ver # 0 => ver' = ver)]_vars
=============================================================================
