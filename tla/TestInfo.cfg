SPECIFICATION Spec
INVARIANT TypeOK
PROPERTY Monotone
CHECK_DEADLOCK FALSE
