"""Reference ECDSA signer on the named curves and generators of (biased) nonces.
Independent of the library's arithmetic: only the curve *parameters* are read
from the library's CURVE_FACTORY (they are validated by C11)."""
import functools
import hashlib

from pmc import art, world
from pmc.refs import ec as rec
from pmc.refs import nt

NAMES = {1: 'secp192r1', 2: 'secp256r1', 3: 'secp224r1', 4: 'secp384r1', 5: 'secp521r1',
         6: 'secp256k1', 17: 'brainpoolP256r1', 18: 'brainpoolP384r1', 19: 'brainpoolP512r1'}


@functools.lru_cache(maxsize=None)
def curve(cid):
  w = world.load()
  L = w.ec_util.CURVE_FACTORY[cid]
  c = rec.Curve(int(L.mod), int(L.a), int(L.b), (int(L.g[0]), int(L.g[1])), int(L.n), L.h,
                L.name)
  # doubling table for fast generator multiplication
  tab = [c.g]
  for _ in range(c.n.bit_length() + 1):
    tab.append(c.add(tab[-1], tab[-1]))
  c._gtab = tab  # pylint: disable=protected-access
  return c


def gmul(cid, k):
  c = curve(cid)
  k %= c.n
  R = None
  i = 0
  while k:
    if k & 1:
      R = c.add(R, c._gtab[i])  # pylint: disable=protected-access
    k >>= 1
    i += 1
  return R


def bits2int_mod(hb, n):
  v = int.from_bytes(hb, 'big')
  if 8 * len(hb) > n.bit_length():
    v >>= 8 * len(hb) - n.bit_length()
  return v % n


def sign_raw(cid, d, k, hb):
  """(r, s) or None."""
  c = curve(cid)
  R = gmul(cid, k)
  if R is None:
    return None
  r = R[0] % c.n
  z = bits2int_mod(hb, c.n)
  s = pow(k, -1, c.n) * (z + r * d) % c.n
  if r == 0 or s == 0:
    return None
  return r, s


@functools.lru_cache(maxsize=4096)
def pubkey(cid, d):
  return gmul(cid, d)


def message_hash(label, hashname):
  return getattr(hashlib, hashname)(str(label).encode()).digest()


def signature(cid, d, k, label, hashname='sha256', issuer=None):
  """ECDSASignature proto signed with (d, k); issuer overrides the stated key."""
  hb = message_hash(label, hashname)
  rs = sign_raw(cid, d, k, hb)
  if rs is None:
    raise ValueError('degenerate signature')
  Q = issuer if issuer is not None else pubkey(cid, d)
  return art.ecdsa_sig(cid, Q[0], Q[1], rs[0], rs[1], hb)


def key_proto(cid, d):
  Q = pubkey(cid, d)
  return art.ec_key(cid, Q[0], Q[1])


def rand_scalar(label, n):
  return nt.drbg_int('scalar-%s' % label, n.bit_length() + 64) % (n - 1) + 1


# ---- nonce families ---------------------------------------------------------------

def nonces(kind, cid, bias_bits, count, label):
  """Nonces with `bias_bits` biased bits.
  kind: 'random' | 'msb' (top bits zero) | 'prefix' (common top bits) | 'postfix' (common
  low bits) | 'generalized' (a fixed secret multiple m of prefix-type values)."""
  n = curve(cid).n
  L = n.bit_length()
  out = []
  if kind == 'random':
    return [rand_scalar('%s-%d' % (label, i), n) for i in range(count)]
  free = L - bias_bits
  common = nt.drbg_int('common-%s' % label, bias_bits) | 1
  m = rand_scalar('m-%s' % label, n)
  for i in range(count):
    v = nt.drbg_int('free-%s-%d' % (label, i), free)
    if kind == 'msb':
      k = v
    elif kind == 'prefix':
      pre = (common | (1 << (bias_bits - 1))) >> 1  # keeps the value below n
      k = (pre << free) | v
    elif kind == 'postfix':
      k = (v << bias_bits) | common
    elif kind == 'generalized':
      pre = (common | (1 << (bias_bits - 1))) >> 1
      k = ((pre << free) | v) * pow(m, -1, n) % n
    else:
      raise ValueError(kind)
    k %= n
    if k == 0:
      k = 1
    out.append(k)
  return out


def u2f_nonce(cid, label):
  """Each byte repeated four times: abababab cdcdcdcd ... (one byte per 32-bit word)."""
  n = curve(cid).n
  L = n.bit_length()
  k = 0
  for j in range(0, L, 32):
    b = nt.drbg_int('u2f-%s-%d' % (label, j), 8)
    if j + 32 >= L:
      b = b % 0x7f + 1  # keep the nonce below the order
    k |= (b * 0x01010101) << j
  return k % n


# GMP's linear congruential generators (gmp_randinit_lc_2exp_size): state bits, multiplier
GMP_LC = {
    32: 0x29CF535, 33: 0x51F666D, 34: 0xA3D73AD, 35: 0x147E5B85, 36: 0x28F725C5,
    38: 0xA3DD5CDD, 39: 0x147DD7DBD, 40: 0x28F5DA175, 56: 0xAA7D735234C0DD,
    64: 0xBAECD515DAF0B49D, 100: 0x292787EBD3329AD7E7575E2FD,
    128: 0x48A74F367FA7B5C8ACBB36901308FA85,
    156: 0x78A7FDDDC43611B527C3F1D760F36E5D7FC7C45,
    196: 0x41BA2E104EE34C66B3520CE706A56498DE6D44721E5E24F5,
    200: 0x4E5A24C38B981EAFE84CD9D0BEC48E83911362C114F30072C5,
    256: 0xAF66BA932AAF58A071FD8F0742A99A0C76982D648509973DB802303128A14CB5,
}


class GmpLc:
  """gmp_randinit_lc_2exp(a, c=1, m2exp) with the default seed 1; urandomb concatenates
  the upper halves of successive states, low chunk first."""

  def __init__(self, m2exp, seed=1):
    self.m2exp = m2exp
    self.a = GMP_LC[m2exp]
    self.state = seed % (1 << m2exp)

  def chunk(self):
    self.state = (self.state * self.a + 1) % (1 << self.m2exp)
    return self.state >> (self.m2exp - self.m2exp // 2)

  def urandomb(self, nbits):
    cb = self.m2exp // 2
    v, pos = 0, 0
    while pos + cb <= nbits:
      v |= self.chunk() << pos
      pos += cb
    if pos != nbits:
      v |= (self.chunk() & ((1 << (nbits - pos)) - 1)) << pos
    return v

  def urandomm(self, n):
    nbits = n.bit_length()
    for _ in range(80):
      v = self.urandomb(nbits)
      if v < n:
        return v
    return v % n


def gmp_nonces(m2exp, cid, count, seed=1, skip=0):
  n = curve(cid).n
  g = GmpLc(m2exp, seed)
  for _ in range(skip):
    g.urandomm(n)
  out = []
  while len(out) < count:
    k = g.urandomm(n)
    if k:
      out.append(k)
  return out


class JavaRandom:

  def __init__(self, seed):
    self.s = (seed ^ 0x5DEECE66D) & ((1 << 48) - 1)

  def next32(self):
    self.s = (self.s * 0x5DEECE66D + 0xB) & ((1 << 48) - 1)
    return self.s >> 16

  def biginteger(self, bits):
    nb = (bits + 7) // 8
    out = bytearray()
    while len(out) < nb:
      v = self.next32()
      out += v.to_bytes(4, 'little')
    out = bytearray(out[:nb])
    if bits % 8:
      out[0] &= (1 << (bits % 8)) - 1
    return int.from_bytes(out, 'big')


def java_nonces(cid, count, seed):
  n = curve(cid).n
  jr = JavaRandom(seed)
  out = []
  while len(out) < count:
    k = jr.biginteger(n.bit_length())
    if 0 < k < n:
      out.append(k)
  return out


def signatures(cid, d, ks, label, hashname='sha256'):
  return [signature(cid, d, k, '%s-%d' % (label, i), hashname) for i, k in enumerate(ks)]
