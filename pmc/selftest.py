"""Shim self-test: the world the checks see must import and behave."""
import sys

from pmc import world


def main():
  w = world.load()
  for v in ('portable', 'clmul'):
    world.build_native(v)
    world.build_native(v, kind='driver')
    f = world.native_lfsr(v)
    assert f(bytes([0b1011011]), 7) >= 1
  assert len(w.paranoid.GetRSAAllChecks()) >= 1
  assert w.bm.LinearComplexity(0b1011011, 7) == w.bm.LinearComplexityNative(
      0b1011011, 7)
  assert len(w.default_storage.DefaultStorage().GetKeypairData().table) > 0
  k = w.pb.RSAKey()
  k.rsa_info.n = b'\x01'
  assert w.pb.RSAKey.FromString(k.SerializeToString()) == k
  print('selftest ok: repo=%s' % world.REPO)


if __name__ == '__main__':
  sys.exit(main())
