"""pytest plugin: installs the generated-module shims so that upstream's own test
modules (uncollectable in this image) can run: python -m pytest -p pmc.pytest_shim ..."""
from pmc import world

world.load()
