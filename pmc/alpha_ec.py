"""EC key and ECDSA signature alphabets shared by C02, C07, C16, C17, C18."""
import functools

from pmc import art, gen_ec as G
from pmc.refs import nt

KNOWN = (2, 4, 1, 3, 5, 6, 17, 18, 19)
BINARY = tuple(range(7, 17))


def coord_variants(cid):
  """Degenerate public points for a known curve: (name, x, y) with ints or bytes."""
  c = G.curve(cid)
  g = c.g
  P = G.gmul(cid, G.rand_scalar('alpha-ec-%d' % cid, c.n))
  return [
      ('G', g[0], g[1]), ('random', P[0], P[1]), ('-G', g[0], c.p - g[1]),
      ('zero', 0, 0), ('x=0,y=p', 0, c.p), ('x=p,y=0', c.p, 0),
      ('Gx+p', g[0] + c.p, g[1]), ('Gy+p', g[0], g[1] + c.p),
      ('both+p', g[0] + c.p, g[1] + c.p), ('off-curve', g[0], g[1] + 1),
      ('swapped', g[1], g[0]), ('huge', 2**600 + 1, 5), ('empty', b'', b''),
      ('leading-zeros', b'\x00\x00' + art.i2b(g[0]), b'\x00' + art.i2b(g[1])),
      ('Px+p', P[0] + c.p, P[1]),
  ]


def ec_key(cid, name):
  if cid in KNOWN:
    for nm, x, y in coord_variants(cid):
      if nm == name:
        return art.ec_key(cid, x, y)
    raise KeyError(name)
  x, y = {'small': (1, 2), 'zero': (0, 0), 'huge': (2**300, 2**299 + 1),
          'empty': (b'', b'')}[name]
  return art.ec_key(cid, x, y)


def unknown_variants():
  return ['small', 'zero', 'huge', 'empty']


@functools.lru_cache(maxsize=None)
def sig_params(cid, rname, sname, hlen, issuer):
  """A well-formed signature record (r, s in [1, n-1]) with arbitrary values."""
  if cid in KNOWN:
    n = G.curve(cid).n
    g = G.curve(cid).g
    p = G.curve(cid).p
  else:
    n = 2**160 + 7
    g = (5, 7)
    p = 2**163
  val = {'1': 1, 'n-1': n - 1, 'mid': n // 2 + 12345, 'rnd': nt.drbg_int('sig-%d' % cid, 150) + 2}
  r, s = val[rname], val[sname]
  hb = nt.drbg('sig-h-%d' % hlen, hlen)
  if issuer == 'valid':
    q = g
  elif issuer == 'valid2':
    q = G.gmul(cid, 77) if cid in KNOWN else (9, 11)
  elif issuer == 'offcurve':
    q = (g[0], g[1] + 1)
  elif issuer == 'x+p':
    q = (g[0] + p, g[1])
  elif issuer == 'zero':
    q = (0, 0)
  else:
    raise ValueError(issuer)
  return (cid, q[0], q[1], r, s, hb)


def sig(cid, rname, sname, hlen, issuer):
  return art.ecdsa_sig(*sig_params(cid, rname, sname, hlen, issuer))
