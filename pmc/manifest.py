"""Generates /verif/MANIFEST.json from the property modules present."""
import importlib
import json
import os
import sys

VERIF = os.path.dirname(os.path.dirname(os.path.abspath(__file__)))
ALL = ['C%02d' % i for i in range(1, 21)]


def main():
  checks, na = [], []
  for pid in ALL:
    try:
      mod = importlib.import_module('pmc.props.' + pid.lower())
    except ImportError:
      na.append({'property_id': pid,
                 'reason': 'check not built yet (planned in DESIGN.md section 2)'})
      continue
    checks.append({
        'property_id': pid,
        'quick_cmd': './check %s --tier quick' % pid,
        'thorough_cmd': './check %s --tier thorough' % pid,
        'evidence_file': 'evidence/%s.json' % pid,
        'replay_cmd_template': './check %s --replay {path}' % pid,
        'engine': 'pmc',
        'level_claimed': {
            'category': mod.LEVEL,
            'text': mod.LEVEL_TEXT,
            'design_ref': 'DESIGN.md section 2, ' + pid,
        },
        'level_note': '; '.join(mod.ASSUMPTIONS),
        'technique': mod.TECHNIQUE,
    })
  m = {
      'version': 1,
      'setup_cmd': './setup.sh',
      'hooks': {
          'guard': 'PARANOID_CRYPTO_VERIF',
          'enable': 'no source hooks: generated modules (paranoid_pb2, data_pb2, '
                    'native berlekamp_massey) are rebuilt from the working tree by '
                    'pmc.world on every check invocation',
          'baseline_off_cmd': 'cd /repo && /venv/bin/python -m pytest -ra -q '
                              '-p no:cacheprovider --timeout=900 '
                              '--continue-on-collection-errors',
          'source_commits': [],
          'add_only': True,
      },
      'engines': [{
          'name': 'pmc',
          'path': 'pmc/',
          'serves_properties': [c['property_id'] for c in checks],
          'kind_free_text': 'hand-written explicit-state / bounded-exhaustive '
                            'explorer for Python: complete product enumeration of '
                            'declared finite input spaces and BFS over operation '
                            'histories on the real objects, 16 worker processes',
      }],
      'checks': checks,
      'not_applicable': na,
      'notes': 'Exit codes: 0 held, 1 VIOLATION, 2 harness error (never a '
               'verdict). known_findings.json lists recorded/fixed defects.',
  }
  with open(os.path.join(VERIF, 'MANIFEST.json'), 'w') as f:
    json.dump(m, f, indent=1)
  print('MANIFEST.json: %d checks, %d not_applicable' % (len(checks), len(na)))


if __name__ == '__main__':
  sys.path.insert(0, VERIF)
  main()
