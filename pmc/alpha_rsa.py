"""The RSA key alphabet shared by the check-level properties (C01, C07, C16, C17,
C18): healthy keys, every documented weak family, degenerate moduli. Each entry:
(name, n, info) with info['planted'] = known prime factors or None, and
info['slow'] = True for moduli on which CheckLowHammingWeight runs to its step cap."""
import functools

from pmc import gen_rsa as g
from pmc.refs import nt


@functools.lru_cache(maxsize=None)
def roca_structured(bits=1024, idx=0):
  primes = [p for p in nt.sieve(174) if p >= 3]
  M = nt.prod(primes)
  ps = []
  for j in range(2):
    k = nt.drbg_int('aroca-k-%d-%d-%d' % (bits, idx, j), bits // 2 - M.bit_length() - 1) | (
        1 << (bits // 2 - M.bit_length() - 2))
    a = nt.drbg_int('aroca-a-%d-%d-%d' % (bits, idx, j), 60)
    c = k * M + pow(65537, a, M)
    while not nt.is_prime(c):
      k += 1
      c = k * M + pow(65537, a, M)
    ps.append(c)
  return {'family': 'roca', 'p': ps[0], 'q': ps[1], 'n': ps[0] * ps[1]}


def keypair_key(b0=0, bits=2048):
  from pmc.props.c06 import ref_keypair
  p, q = ref_keypair(bytes([b0] + [0] * 31), bits)
  return {'family': 'keypair', 'p': p, 'q': q, 'n': p * q}


@functools.lru_cache(maxsize=None)
def alphabet(unseeded_512=None):
  """Ordered simplest-first."""
  A = []

  def add(name, d, slow=False, **kw):
    if d is None:
      return
    info = {'planted': sorted({d['p'], d['q']}) if 'p' in d else None, 'slow': slow,
            'family': d.get('family', name)}
    info.update(kw)
    A.append((name, d['n'], info))

  add('strong-2048', g.strong(2048), healthy=True)
  add('strong-2048b', g.strong(2048, 'b'), healthy=True)
  add('strong-3072', g.strong(3072), healthy=True)
  add('strong-4096', g.strong(4096), healthy=True)
  add('strong-64', g.strong(64))
  add('strong-65', g.strong(65))
  add('strong-127', g.strong(127))
  add('strong-128', g.strong(128))
  add('strong-1024', g.strong(1024))
  add('fermat-2048', g.fermat_close(2048, 40))
  add('fermat-128', g.fermat_close(128, 8))
  add('high-low-equal-1024', g.high_low_equal(512, 140, 140))
  add('upper-diff-1024', g.upper_diff(512, 100))
  add('upper-diff-2048', g.upper_diff(1024, 2))
  if unseeded_512:
    add('unseeded-1024', g.unseeded(unseeded_512, 2, 512))
  add('bit-pattern-2048', g.bit_pattern(2048, 31, 16))
  add('permuted-pattern-1024', g.permuted_pattern(1024, 16, 7))
  add('both-patterned-1024', g.both_patterned(1024, 31))
  add('low-hamming-1024', g.low_hamming(1024, 16))
  add('pm1-one-smooth-1024', g.pm1_smooth(1024, False))
  add('pm1-both-smooth-1024', g.pm1_smooth(1024, True))
  add('roca-1024', roca_structured(1024))
  add('keypair-2048', keypair_key(0, 2048))
  kp = keypair_key(0, 2048)
  A.append(('keypair-lowbits-altered', kp['n'] + 2, {'planted': None, 'slow': False,
                                                   'family': 'near-miss'}))
  lh = g.low_hamming(1024, 16)
  A.append(('low-hamming-plus1', lh['n'] + 1, {'planted': None, 'slow': False,
                                             'family': 'near-miss'}))
  A.append(('low-hamming-plus2', lh['n'] + 2, {'planted': None, 'slow': False,
                                             'family': 'near-miss'}))
  gshared = nt.rand_prime('nm1-g', 140)
  for tag in ('a', 'b'):
    f = nt.rand_prime('nm1-f-' + tag, 1900)
    A.append(('nm1-' + tag, 2 * gshared * f + 1, {'planted': None, 'slow': False,
                                                  'family': 'nm1-shared'}))
  s1, s2 = g.strong(2048, 'shared1'), g.strong(2048, 'shared2')
  A.append(('shared-a', s1['p'] * s1['q'], {'planted': sorted([s1['p'], s1['q']]), 'slow': False,
                                            'family': 'shared', 'healthy_alone': True}))
  A.append(('shared-b', s1['p'] * s2['q'], {'planted': sorted([s1['p'], s2['q']]), 'slow': False,
                                            'family': 'shared', 'healthy_alone': True}))
  A.append(('nested', s1['p'] * s1['q'] * nt.rand_prime('nested-r', 64),
            {'planted': None, 'slow': False, 'family': 'nested'}))
  for name, n in g.degenerate():
    slow = name in ('2^63', '2^64', '2^2048', '2^127-1', '2^2203-1', 'prime-2048', 'smooth',
                    'square-2048', '2p-1025')
    A.append((name, n, {'planted': None, 'slow': slow, 'family': 'degenerate'}))
  return tuple(A)
