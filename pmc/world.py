"""Load the *current working tree* of the repository under test without
protoc / pybind11.

Two generated modules are missing in this image:
  * paranoid_crypto/paranoid_pb2.py and lib/data/data_pb2.py  (protoc)
  * lib/randomness_tests/cc_util/pybind/berlekamp_massey.so   (pybind11)
Both are rebuilt from the sources in the tree on every invocation (the native
part is cached under /verif/build keyed by the content hash of the sources).
"""
import ctypes
import hashlib
import importlib
import os
import re
import subprocess
import sys
import types

VERIF = os.path.dirname(os.path.dirname(os.path.abspath(__file__)))
REPO = os.environ.get('VERIF_REPO', '/repo')
BUILD = os.path.join(VERIF, 'build')
GUARD = 'PARANOID_CRYPTO_VERIF'

_SCALARS = {
    'double': 1, 'float': 2, 'int64': 3, 'uint64': 4, 'int32': 5,
    'fixed64': 6, 'fixed32': 7, 'bool': 8, 'string': 9, 'bytes': 12,
    'uint32': 13, 'sfixed32': 15, 'sfixed64': 16, 'sint32': 17, 'sint64': 18,
}


class HarnessError(Exception):
  """Infrastructure problem: never reported as a property violation."""


def _strip_comments(text):
  text = re.sub(r'/\*.*?\*/', '', text, flags=re.S)
  return re.sub(r'//[^\n]*', '', text)


def parse_proto(path, name):
  """Parses the subset of proto3 used by the repository into a
  FileDescriptorProto."""
  from google.protobuf import descriptor_pb2
  text = _strip_comments(open(path).read())
  fd = descriptor_pb2.FileDescriptorProto()
  fd.name = name
  fd.syntax = 'proto3'
  m = re.search(r'package\s+([\w.]+)\s*;', text)
  pkg = m.group(1) if m else ''
  fd.package = pkg
  enums = set(re.findall(r'enum\s+(\w+)\s*\{', text))
  msgs = set(re.findall(r'message\s+(\w+)\s*\{', text))
  for m in re.finditer(r'enum\s+(\w+)\s*\{([^}]*)\}', text):
    e = fd.enum_type.add()
    e.name = m.group(1)
    for v in re.finditer(r'(\w+)\s*=\s*(-?\d+)\s*;', m.group(2)):
      ev = e.value.add()
      ev.name = v.group(1)
      ev.number = int(v.group(2))
  for m in re.finditer(r'message\s+(\w+)\s*\{([^}]*)\}', text):
    msg = fd.message_type.add()
    msg.name = m.group(1)
    body = m.group(2)
    for f in re.finditer(
        r'(repeated\s+|optional\s+)?(map\s*<\s*(\w+)\s*,\s*(\w+)\s*>|[\w.]+)'
        r'\s+(\w+)\s*=\s*(\d+)\s*;', body):
      label, ftype, mk, mv, fname, num = f.groups()
      fld = msg.field.add()
      fld.name = fname
      fld.number = int(num)
      fld.json_name = re.sub(r'_(\w)', lambda x: x.group(1).upper(), fname)
      fld.label = 3 if (label and label.strip() == 'repeated') else 1

      def settype(fl, t):
        if t in _SCALARS:
          fl.type = _SCALARS[t]
        elif t in enums:
          fl.type = 14
          fl.type_name = '.%s.%s' % (pkg, t)
        elif t in msgs:
          fl.type = 11
          fl.type_name = '.%s.%s' % (pkg, t)
        else:
          raise HarnessError('proto shim: unknown type %r in %s' % (t, path))

      if mk:
        entry = msg.nested_type.add()
        entry.name = ''.join(p.capitalize() for p in fname.split('_')) + 'Entry'
        entry.options.map_entry = True
        k = entry.field.add()
        k.name, k.number, k.label, k.json_name = 'key', 1, 1, 'key'
        settype(k, mk)
        v = entry.field.add()
        v.name, v.number, v.label, v.json_name = 'value', 2, 1, 'value'
        settype(v, mv)
        fld.label = 3
        fld.type = 11
        fld.type_name = '.%s.%s.%s' % (pkg, msg.name, entry.name)
      else:
        settype(fld, ftype)
  return fd


_pb_cache = {}


def _make_pb2(path, name, modname):
  """Builds (once per process and per file content) a module object that
  looks like protoc's output."""
  from google.protobuf import descriptor_pool, message_factory
  from google.protobuf.internal import enum_type_wrapper
  content = open(path, 'rb').read()
  key = (name, hashlib.sha256(content).hexdigest())
  if key in _pb_cache:
    return _pb_cache[key]
  fd = parse_proto(path, name)
  # A private pool per content hash: the default pool refuses re-registration
  # of a changed file under the same name.
  pool = descriptor_pool.DescriptorPool()
  pool.Add(fd)
  filed = pool.FindFileByName(name)
  mod = types.ModuleType(modname)
  mod.DESCRIPTOR = filed
  factory = message_factory.MessageFactory(pool)
  for mname, mdesc in filed.message_types_by_name.items():
    setattr(mod, mname, factory.GetPrototype(mdesc))
  for ename, edesc in filed.enum_types_by_name.items():
    setattr(mod, ename, enum_type_wrapper.EnumTypeWrapper(edesc))
    for v in edesc.values:
      setattr(mod, v.name, v.number)
  _pb_cache[key] = mod
  return mod


_SHIM_CC = r'''
#include <string>
#include "paranoid_crypto/lib/randomness_tests/cc_util/berlekamp_massey.h"
extern "C" int verif_lfsr_length(const char* buf, long len, int n) {
  std::string s(buf, (size_t)len);
  return paranoid_crypto::lib::randomness_tests::cc_util::LfsrLengthStr(s, n);
}
'''

_DRIVER_CC = r'''
// Stand-alone driver: reads records "n hexbytes\n" from stdin, prints the
// length per record, flushing each line, so that a crash can be attributed to
// the first unanswered input.
#include <cstdio>
#include <cstdlib>
#include <cstring>
#include <string>
#include <vector>
#include <iostream>
#include "paranoid_crypto/lib/randomness_tests/cc_util/berlekamp_massey.h"
using paranoid_crypto::lib::randomness_tests::cc_util::LfsrLengthStr;
static int hv(char c){ return c<='9'?c-'0':c-'a'+10; }
int main(int argc, char** argv) {
  if (argc > 1 && !strcmp(argv[1], "exhaustive")) {
    // exhaustive n0..n1: for every n and every value v < 2^n print n v len
    int n0 = atoi(argv[2]), n1 = atoi(argv[3]);
    for (int n = n0; n <= n1; n++) {
      unsigned long cnt = 1UL << n;
      printf("B %d\n", n); fflush(stdout);
      std::vector<int> out(cnt);
      for (unsigned long v = 0; v < cnt; v++) {
        std::string s((n + 7) / 8, '\0');
        for (size_t i = 0; i < s.size(); i++) s[i] = (char)((v >> (8 * i)) & 0xff);
        if (n == 0) s = std::string();
        out[v] = LfsrLengthStr(s, n);
      }
      fwrite(out.data(), sizeof(int), cnt, stdout);
      printf("\nE %d\n", n); fflush(stdout);
    }
    return 0;
  }
  std::string line;
  while (std::getline(std::cin, line)) {
    size_t sp = line.find(' ');
    int n = atoi(line.substr(0, sp).c_str());
    std::string hex = sp == std::string::npos ? "" : line.substr(sp + 1);
    std::string s(hex.size() / 2, '\0');
    for (size_t i = 0; i < s.size(); i++) s[i] = (char)(hv(hex[2*i]) * 16 + hv(hex[2*i+1]));
    printf("%d\n", LfsrLengthStr(s, n)); fflush(stdout);
  }
  return 0;
}
'''

BM_REL = 'paranoid_crypto/lib/randomness_tests/cc_util'
VARIANTS = {
    'clmul': ['-mpclmul', '-D__CLMUL__'],
    'portable': [],
}


def _bm_hash():
  h = hashlib.sha256()
  for f in ('berlekamp_massey.cc', 'berlekamp_massey.h'):
    h.update(open(os.path.join(REPO, BM_REL, f), 'rb').read())
  h.update(_SHIM_CC.encode())
  h.update(_DRIVER_CC.encode())
  return h.hexdigest()[:16]


def build_native(variant, kind='lib', sanitize=False):
  """Compiles /repo's berlekamp_massey.cc (variant: 'clmul' or 'portable').
  kind: 'lib' (ctypes shared object) or 'driver' (stand-alone executable)."""
  os.makedirs(BUILD, exist_ok=True)
  tag = '%s-%s-%s%s' % (_bm_hash(), variant, kind, '-san' if sanitize else '')
  out = os.path.join(BUILD, 'bm-' + tag + ('.so' if kind == 'lib' else ''))
  if os.path.exists(out):
    return out
  src = os.path.join(BUILD, 'bm-%s-%s.cc' % (tag, os.getpid()))
  with open(src, 'w') as f:
    f.write(_SHIM_CC if kind == 'lib' else _DRIVER_CC)
  cmd = ['g++', '-O2', '-std=c++17', '-I' + REPO] + VARIANTS[variant]
  if sanitize:
    cmd = ['clang++-14' if _which('clang++-14') else 'clang++', '-O1', '-g',
           '-std=c++17', '-I' + REPO, '-fsanitize=address,undefined',
           '-fno-sanitize-recover=all'] + VARIANTS[variant]
  if kind == 'lib':
    cmd += ['-shared', '-fPIC']
  tmp = out + '.tmp%d' % os.getpid()
  cmd += [src, os.path.join(REPO, BM_REL, 'berlekamp_massey.cc'), '-o', tmp]
  r = subprocess.run(cmd, capture_output=True, text=True)
  os.unlink(src)
  if r.returncode != 0:
    raise HarnessError('native build failed: %s\n%s' % (' '.join(cmd), r.stderr))
  os.replace(tmp, out)
  return out


def _which(x):
  from shutil import which
  return which(x)


def native_lfsr(variant):
  lib = ctypes.CDLL(build_native(variant))
  fn = lib.verif_lfsr_length
  fn.argtypes = [ctypes.c_char_p, ctypes.c_long, ctypes.c_int]
  fn.restype = ctypes.c_int

  def LfsrLength(seq, n):
    if not isinstance(seq, (bytes, bytearray)):
      raise TypeError('bytes expected')
    if not isinstance(n, int) or not -2**31 <= n < 2**31:
      raise TypeError('n does not fit a C int (pybind11 rejects it)')
    return fn(bytes(seq), len(seq), int(n))

  return LfsrLength


_state = {'variant': None}


def install_shims(variant=None):
  """Installs the generated modules into sys.modules. Idempotent."""
  variant = variant or os.environ.get('VERIF_BM_VARIANT', 'portable')
  if REPO not in sys.path:
    sys.path.insert(0, REPO)
  # Make sure we import the tree under test, not an installed copy.
  import paranoid_crypto
  if not os.path.abspath(paranoid_crypto.__file__).startswith(
      os.path.abspath(REPO) + os.sep):
    raise HarnessError('paranoid_crypto imported from %s, expected %s' %
                       (paranoid_crypto.__file__, REPO))
  pb = _make_pb2(os.path.join(REPO, 'paranoid_crypto/paranoid.proto'),
                 'paranoid_crypto/paranoid.proto', 'paranoid_crypto.paranoid_pb2')
  sys.modules['paranoid_crypto.paranoid_pb2'] = pb
  paranoid_crypto.paranoid_pb2 = pb
  import paranoid_crypto.lib
  import paranoid_crypto.lib.data
  dpb = _make_pb2(os.path.join(REPO, 'paranoid_crypto/lib/data/data.proto'),
                  'paranoid_crypto/lib/data/data.proto',
                  'paranoid_crypto.lib.data.data_pb2')
  sys.modules['paranoid_crypto.lib.data.data_pb2'] = dpb
  paranoid_crypto.lib.data.data_pb2 = dpb
  import paranoid_crypto.lib.randomness_tests
  import paranoid_crypto.lib.randomness_tests.cc_util.pybind as pyb
  bm = types.ModuleType(
      'paranoid_crypto.lib.randomness_tests.cc_util.pybind.berlekamp_massey')
  bm.LfsrLength = native_lfsr(variant)
  bm.__variant__ = variant
  sys.modules[bm.__name__] = bm
  pyb.berlekamp_massey = bm
  _state['variant'] = variant


def load(variant=None):
  """Imports the library (in the right order) and returns a namespace."""
  install_shims(variant)
  # paranoid must be imported before ecdsa_sig_checks (circular import).
  importlib.import_module('paranoid_crypto.lib.paranoid')
  _quiet()
  return W()


def _quiet():
  """The library logs every finding through absl at WARNING level."""
  try:
    from absl import logging as alog
    alog.set_verbosity(alog.FATAL)
    alog.set_stderrthreshold('fatal')
    import logging
    logging.getLogger('absl').setLevel(logging.CRITICAL)
  except Exception:  # pylint: disable=broad-except
    pass


def fresh_world(variant=None):
  """Purges every paranoid_crypto module and re-imports: new curve
  singletons, empty check factory. The 'initial state' of a history."""
  for k in [k for k in sys.modules if k == 'paranoid_crypto' or
            k.startswith('paranoid_crypto.')]:
    del sys.modules[k]
  return load(variant or _state['variant'])


class W:
  """Lazy accessor: W().rsa_util -> paranoid_crypto.lib.rsa_util etc."""
  _alias = {
      'pb': 'paranoid_crypto.paranoid_pb2',
      'rt_util': 'paranoid_crypto.lib.randomness_tests.util',
      'nist': 'paranoid_crypto.lib.randomness_tests.nist_suite',
      'ext_nist': 'paranoid_crypto.lib.randomness_tests.extended_nist_suite',
      'lattice_suite': 'paranoid_crypto.lib.randomness_tests.lattice_suite',
      'rng': 'paranoid_crypto.lib.randomness_tests.rng',
      'bm': 'paranoid_crypto.lib.randomness_tests.berlekamp_massey',
      'suite': 'paranoid_crypto.lib.randomness_tests.random_test_suite',
      'version': 'paranoid_crypto.version',
      'storage': 'paranoid_crypto.lib.data.storage',
      'default_storage': 'paranoid_crypto.lib.data.default_storage',
      'unseeded_rands': 'paranoid_crypto.lib.data.unseeded_rands',
  }

  def __getattr__(self, name):
    modname = self._alias.get(name, 'paranoid_crypto.lib.' + name)
    if modname in sys.modules and name == 'pb':
      return sys.modules[modname]
    mod = importlib.import_module(modname)
    return mod


def repo_sha():
  try:
    r = subprocess.run(['git', '-C', REPO, 'rev-parse', 'HEAD'],
                       capture_output=True, text=True)
    d = subprocess.run(['git', '-C', REPO, 'status', '--porcelain'],
                       capture_output=True, text=True)
    return r.stdout.strip() + ('+dirty' if d.stdout.strip() else '')
  except Exception:  # pylint: disable=broad-except
    return 'unknown'
