"""Artifact builders and test_info readers (independent of the library's own
util helpers, so a broken helper cannot hide itself)."""
import ast

from pmc import world


def i2b(x, minlen=0, lead=0):
  x = int(x)
  b = x.to_bytes(max((x.bit_length() + 7) // 8, minlen), 'big')
  return b'\x00' * lead + b


def b2i(b):
  return int.from_bytes(bytes(b), 'big')


def pb():
  import sys
  return sys.modules['paranoid_crypto.paranoid_pb2']


def rsa_key(n, e=65537, lead=0):
  k = pb().RSAKey()
  k.rsa_info.n = i2b(n, lead=lead)
  if e is not None:
    k.rsa_info.e = i2b(e)
  return k


def ec_key(curve_type, x, y):
  k = pb().ECKey()
  k.ec_info.curve_type = curve_type
  k.ec_info.x = x if isinstance(x, bytes) else i2b(x)
  k.ec_info.y = y if isinstance(y, bytes) else i2b(y)
  return k


def ecdsa_sig(curve_type, qx, qy, r, s, h, lead=0):
  sig = pb().ECDSASignature()
  sig.issuer_key_info.curve_type = curve_type
  sig.issuer_key_info.x = qx if isinstance(qx, bytes) else i2b(qx)
  sig.issuer_key_info.y = qy if isinstance(qy, bytes) else i2b(qy)
  sig.ecdsa_sig_info.r = i2b(r, lead=lead)
  sig.ecdsa_sig_info.s = i2b(s, lead=lead)
  sig.ecdsa_sig_info.message_hash = h if isinstance(h, bytes) else i2b(h)
  return sig


def entries(test_info):
  """[(name, result, severity)] in stored order."""
  return [(t.test_name, bool(t.result), int(t.severity))
          for t in test_info.test_results]


def entry(test_info, name):
  r = [(t.result, t.severity) for t in test_info.test_results
       if t.test_name == name]
  if not r:
    return None
  return (bool(r[0][0]), int(r[0][1]))


def attached(test_info, name):
  r = [a.value for a in test_info.attached_info if a.info_name == name]
  return r[0] if r else None


def factors(test_info, name='N_FACTORS'):
  """Parsed factor set (None if absent). The stored string is str(set) whose
  order depends on PYTHONHASHSEED, so it is always parsed."""
  v = attached(test_info, name)
  if v is None:
    return None
  return frozenset(int(h, 16) for h in ast.literal_eval(v))


def info_canon(test_info):
  """Order-normalised, parsed view of a TestInfo (for state hashing and
  differential comparison)."""
  att = {}
  for a in test_info.attached_info:
    v = a.value
    if a.info_name in ('N_FACTORS', 'N-1_FACTORS'):
      try:
        v = sorted(int(h, 16) for h in ast.literal_eval(v))
      except Exception:  # pylint: disable=broad-except
        pass
    att.setdefault(a.info_name, []).append(v)
  return {
      'weak': bool(test_info.weak),
      'version': test_info.paranoid_lib_version,
      'results': sorted(entries(test_info)),
      'attached': att,
  }
