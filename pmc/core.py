"""pmc core: task runner, result merging, evidence, known findings, replay.

A property module (pmc/props/cXX.py) provides
  ID, LEVEL ('exploration' | 'model_checking'), RULE (str), ASSUMPTIONS (list)
  plan(tier, seed) -> list[Task]
  CASES: dict name -> callable(**args) -> list[str]   (violation texts; [] = ok)
Task functions run inside worker processes and return a Result.
"""
import collections
import hashlib
import importlib
import json
import multiprocessing
import os
import sys
import time
import traceback

from pmc import world

VERIF = world.VERIF
sys.set_int_max_str_digits(0)
# checks against a scratch copy (VERIF_REPO) must not touch /verif/evidence
OUT = os.environ.get('VERIF_OUT', VERIF)
NPROC = int(os.environ.get('VERIF_NPROC', '16'))


class Task:

  def __init__(self, subspace, fn, args=None, complete=True, bound='',
               weight=1.0, mem_heavy=False):
    self.subspace = subspace
    self.fn = fn  # name of a function in the property module
    self.args = args or {}
    self.complete = complete  # the sub-space is enumerated completely
    self.bound = bound
    self.weight = weight  # for ordering: heavy tasks first
    self.mem_heavy = mem_heavy


class Result:
  """What one task measured."""

  def __init__(self):
    self.evaluations = 0
    self.nontrivial = 0
    self.outcomes = collections.Counter()
    self.violations = []
    self.samples = []
    self.notes = []
    self.states = 0
    self.transitions = 0
    self.extra = {}
    self.caps_hit = []

  def ev(self, outcome=None, nontrivial=True, n=1):
    self.evaluations += n
    if nontrivial:
      self.nontrivial += n
    if outcome is not None:
      self.outcomes[str(outcome)] += n

  def sample(self, s, limit=3):
    if len(self.samples) < limit:
      self.samples.append(s)

  def violation(self, what, case, observed=None, expected=None, key=None):
    """case = {'fn': name in CASES, 'args': {...}} -- replayable."""
    if len(self.violations) < 50:
      self.violations.append({
          'what': what,
          'case': case,
          'observed': _j(observed),
          'expected': _j(expected),
          'key': key if key is not None else case,
      })
    else:
      self.extra['violations_truncated'] = self.extra.get(
          'violations_truncated', 0) + 1

  def as_dict(self):
    return self.__dict__


def _j(x):
  """Make a value JSON-friendly."""
  try:
    json.dumps(x)
    return x
  except (TypeError, ValueError):
    pass
  if isinstance(x, (bytes, bytearray)):
    return 'hex:' + bytes(x).hex()
  if isinstance(x, (list, tuple, set, frozenset)):
    xs = list(x)
    if isinstance(x, (set, frozenset)):
      xs = sorted(xs, key=repr)
    return [_j(v) for v in xs]
  if isinstance(x, dict):
    return {str(k): _j(v) for k, v in x.items()}
  try:
    return int(x)
  except Exception:  # pylint: disable=broad-except
    return repr(x)


def in_repo(tb):
  """True if the innermost frames of a traceback are inside the tree under
  test (the library raised), False if the harness itself failed."""
  frames = traceback.extract_tb(tb)
  repo = os.path.abspath(world.REPO) + os.sep
  verif = os.path.abspath(VERIF) + os.sep
  for fr in reversed(frames):
    fn = os.path.abspath(fr.filename)
    if fn.startswith(repo):
      return True
    if fn.startswith(verif):
      return False
  return False


def guarded(fn, *a, **kw):
  """Calls library code. Returns ('ok', value) or ('exc', text)."""
  try:
    return 'ok', fn(*a, **kw)
  except Exception as e:  # pylint: disable=broad-except
    return 'exc', '%s: %s' % (type(e).__name__, str(e)[:200])


def isolated(fn, *a, **kw):
  """Runs fn in a forked child (native code may crash). Returns
  ('ok', value) | ('exc', text) | ('died', 'signal N')."""
  import pickle
  rfd, wfd = os.pipe()
  pid = os.fork()
  if pid == 0:
    try:
      os.close(rfd)
      try:
        out = ('ok', fn(*a, **kw))
      except Exception as e:  # pylint: disable=broad-except
        out = ('exc', '%s: %s' % (type(e).__name__, str(e)[:200]))
      with os.fdopen(wfd, 'wb') as f:
        pickle.dump(out, f)
    finally:
      os._exit(0)
  os.close(wfd)
  with os.fdopen(rfd, 'rb') as f:
    data = f.read()
  _, status = os.waitpid(pid, 0)
  if os.WIFSIGNALED(status):
    return 'died', 'signal %d' % os.WTERMSIG(status)
  if not data:
    return 'died', 'exit status %d without a result' % os.WEXITSTATUS(status)
  return pickle.loads(data)


def _run_task(spec):
  modname, fn, args, subspace = spec
  t0 = time.time()
  try:
    mod = importlib.import_module(modname)
    res = getattr(mod, fn)(**args)
    d = res.as_dict()
  except Exception as e:  # pylint: disable=broad-except
    tb = sys.exc_info()[2]
    text = ''.join(traceback.format_exception(type(e), e, tb))[-3000:]
    r = Result()
    if in_repo(tb):
      # The library raised where the oracle expected a value.
      r.ev('exception')
      r.violation(
          'library raised %s during task %s(%s): %s' %
          (type(e).__name__, fn, json.dumps(_j(args))[:300], str(e)[:200]),
          {'fn': '__task__', 'args': {'fn': fn, 'args': _j(args)}},
          observed=text[-1500:])
      d = r.as_dict()
    else:
      d = r.as_dict()
      d['harness_error'] = text
  d['subspace'] = subspace
  d['wall'] = time.time() - t0
  d['spec'] = '%s(%s)' % (fn, json.dumps(_j(args))[:150])
  d['outcomes'] = dict(d['outcomes'])
  return d


def _init_worker():
  os.environ.setdefault('PYTHONHASHSEED', '0')


def load_known_findings():
  p = os.path.join(VERIF, 'known_findings.json')
  if not os.path.exists(p):
    return []
  return json.load(open(p))


def canon_key(k):
  return json.dumps(_j(k), sort_keys=True)


CAPPED = []  # (subspace, spec) of tasks not finished when the wall-clock cap was reached


def run_property(modname, tier, seed, only=None):
  mod = importlib.import_module(modname)
  pid = mod.ID
  t0 = time.time()
  tasks = mod.plan(tier, seed)
  if only:
    tasks = [t for t in tasks if only in t.subspace or only == t.fn]
  tasks_sorted = sorted(tasks, key=lambda t: -t.weight)
  results = []
  heavy = [(modname, t.fn, t.args, t.subspace) for t in tasks_sorted if t.mem_heavy]
  specs = [(modname, t.fn, t.args, t.subspace) for t in tasks_sorted if not t.mem_heavy]
  ctx = multiprocessing.get_context('fork')
  if os.environ.get('VERIF_SERIAL'):
    for s in heavy + specs:
      results.append(_run_task(s))
  else:
    # memory-heavy tasks (2^24-entry point tables, ~3.5 GB each) run in their own small
    # pool, concurrently with the ordinary tasks
    hw = min(int(os.environ.get('VERIF_HEAVY_NPROC', '4')), len(heavy))
    nw = max(1, min(NPROC - hw, len(specs)))
    hpool = ctx.Pool(hw, initializer=_init_worker, maxtasksperchild=1) if heavy else None
    npool = ctx.Pool(nw, initializer=_init_worker) if specs else None
    try:
      hres = [hpool.apply_async(_run_task, (s,)) for s in heavy] if hpool else []
      # wall-clock cap (thorough tier only by default): a capped run is reported as capped -
      # unfinished tasks are listed in caps_hit and their sub-spaces marked incomplete
      cap = float(os.environ.get('VERIF_TIME_CAP', '2400' if tier == 'thorough' else '0'))
      deadline = t0 + cap if cap > 0 else None
      del CAPPED[:]
      if npool:
        it = npool.imap_unordered(_run_task, specs, chunksize=1)
        ndone = 0
        while ndone < len(specs):
          try:
            d = it.next(timeout=5 if deadline else None)
          except multiprocessing.TimeoutError:
            if deadline and time.time() > deadline:
              break
            continue
          results.append(d)
          ndone += 1
      for h in hres:
        try:
          results.append(h.get(timeout=max(1, deadline - time.time()) if deadline else None))
        except multiprocessing.TimeoutError:
          pass
      if deadline:
        done_specs = collections.Counter(d.get('spec') for d in results)
        for s in specs + heavy:
          key = '%s(%s)' % (s[1], json.dumps(_j(s[2]))[:150])
          if done_specs[key] > 0:
            done_specs[key] -= 1
          else:
            CAPPED.append((s[3], key))
    finally:
      for p_ in (hpool, npool):
        if p_:
          p_.terminate()
          p_.join()
  return finish(mod, tier, seed, tasks, results, t0, bool(only))


def finish(mod, tier, seed, tasks, results, t0, only_partial=False):
  pid = mod.ID
  sub = collections.OrderedDict()
  for t in tasks:
    s = sub.setdefault(t.subspace, {
        'name': t.subspace, 'cases': 0, 'nontrivial': 0, 'complete': True,
        'bound': t.bound, 'wall_s': 0.0})
    s['complete'] = s['complete'] and t.complete
  tot = Result()
  harness_errors = []
  extra = {}
  for d in results:
    s = sub[d['subspace']]
    s['cases'] += d['evaluations']
    s['nontrivial'] += d['nontrivial']
    s['wall_s'] = round(s['wall_s'] + d['wall'], 2)
    tot.evaluations += d['evaluations']
    tot.nontrivial += d['nontrivial']
    tot.outcomes.update(d['outcomes'])
    tot.violations.extend(d['violations'])
    tot.states += d['states']
    tot.transitions += d['transitions']
    tot.caps_hit.extend(d['caps_hit'])
    tot.notes.extend(d['notes'])
    for k, v in d['extra'].items():
      if isinstance(v, (int, float)) and isinstance(extra.get(k, 0), (int, float)):
        extra[k] = extra.get(k, 0) + v
      else:
        extra.setdefault(k, v)
    if d.get('harness_error'):
      harness_errors.append(d['harness_error'])
  for subspace, spec in CAPPED:
    sub[subspace]['complete'] = False
    tot.caps_hit.append('wall-clock cap (VERIF_TIME_CAP) reached: not finished: %s' % spec[:160])
  if CAPPED:
    tot.notes.append('%d of %d tasks were not finished when the wall-clock cap was reached; the '
                     'verdict covers the finished tasks only' % (len(CAPPED), len(tasks)))
  # samples: first, a middle one and the last, in plan order
  by_sub = collections.defaultdict(list)
  for d in results:
    by_sub[d['subspace']].extend(d['samples'])
  samples = []
  for name in sub:
    ss = by_sub.get(name, [])
    if ss:
      samples.append({'subspace': name, 'case': ss[0]})
      if len(ss) > 2:
        samples.append({'subspace': name, 'case': ss[len(ss) // 2]})
  samples = samples[:24]

  if hasattr(mod, 'post'):
    # cross-task oracle on merged measurements (e.g. histograms)
    pr = Result()
    mod.post(extra, pr, tier, seed)
    tot.violations.extend(pr.violations)
    tot.evaluations += pr.evaluations
    tot.nontrivial += pr.nontrivial
    tot.outcomes.update(pr.outcomes)
    tot.notes.extend(pr.notes)
    extra = {k: v for k, v in extra.items() if not k.startswith('_')}

  if harness_errors:
    print('HARNESS-ERROR property=%s (%d task(s) failed inside the harness)' %
          (pid, len(harness_errors)))
    print(harness_errors[0])
    if not tot.violations:
      return 2
    # other tasks did find violations: report them (the failed tasks are not counted as
    # covered), never hide them behind the infrastructure problem
    tot.notes.append('%d task(s) failed inside the harness: %s' %
                     (len(harness_errors), harness_errors[0][-300:]))

  # Known findings
  kf = [k for k in load_known_findings() if k['property'] == pid]
  open_keys = {canon_key(k['key']): k for k in kf if k['status'] == 'finding'}
  matched = {}
  new_violations = []
  seen = set()
  for v in tot.violations:
    ck = canon_key(v['key'])
    if ck in seen:
      continue
    seen.add(ck)
    if ck in open_keys:
      matched[ck] = open_keys[ck]
    else:
      new_violations.append(v)
  for ck, k in matched.items():
    print('KNOWN-FINDING: property=%s %s' % (pid, k['what']))
  # A vacuous run is a harness defect, not a pass.
  vacuous = len(tot.outcomes) <= 1 and not getattr(mod, 'SINGLE_OUTCOME_OK', False)

  rc = 0
  replay_paths = []
  if os.environ.get('VERIF_DUMP_VIOLATIONS') and new_violations:
    with open(os.environ['VERIF_DUMP_VIOLATIONS'], 'w') as f:
      json.dump([{'key': v['key'], 'what': v['what']} for v in new_violations], f, indent=1)
  if new_violations:
    rc = 1
    byfn = collections.Counter(v['case']['fn'] + ':' + str(v['case']['args'].get('kind', ''))
                               if isinstance(v['case'], dict) else '?' for v in new_violations)
    print('  violations by case kind: %s' % dict(byfn))
    # smallest counterexample first
    new_violations.sort(key=lambda v: len(json.dumps(_j(v['case']))))
    shown = set()
    ordered = []
    for v in new_violations:  # one of each kind first
      k = v['case']['fn'] if isinstance(v['case'], dict) else '?'
      if k not in shown:
        shown.add(k)
        ordered.append(v)
    new_violations = ordered + [v for v in new_violations if v not in ordered]
    rdir = os.path.join(OUT, 'replays', pid)
    os.makedirs(rdir, exist_ok=True)
    for i, v in enumerate(new_violations[:10]):
      path = os.path.join(rdir, '%d.json' % i)
      rec = {
          'property': pid, 'tier': tier, 'seed': seed,
          'repo_sha': world.repo_sha(),
          'world': {'variant': os.environ.get('VERIF_BM_VARIANT', 'portable'),
                    'hashseed': os.environ.get('PYTHONHASHSEED')},
          'module': mod.__name__, 'case': v['case'], 'what': v['what'],
          'observed': v['observed'], 'expected': v['expected'],
      }
      with open(path, 'w') as f:
        json.dump(rec, f, indent=1)
      with open(os.path.join(rdir, 'test_replay_%d.py' % i), 'w') as f:
        f.write(_PYTEST % {'verif': VERIF, 'path': path})
      replay_paths.append(path)
      print('  violation: %s' % v['what'][:400])
      print('VIOLATION property=%s replay=%s' % (pid, path))

  wall = time.time() - t0
  cov = {
      'evaluations': tot.evaluations,
      'distinct_nontrivial': tot.nontrivial,
      'rule': mod.RULE,
      'samples': samples or [{'note': 'no samples recorded'}],
      'exhaustive': all(s['complete'] for s in sub.values()),
      'subspaces': list(sub.values()),
      'outcome_classes': len(tot.outcomes),
      'outcomes': dict(sorted(tot.outcomes.items(), key=lambda kv: -kv[1])[:40]),
      'caps_hit': tot.caps_hit,
      'known_findings_matched': [k['what'] for k in matched.values()],
      'notes': tot.notes[:40],
      'repo_sha': world.repo_sha(),
  }
  cov.update(extra)
  if mod.LEVEL == 'model_checking':
    cov['states'] = tot.states
    cov['transitions'] = tot.transitions
    cov['traces_validated_against_impl'] = tot.transitions
    cov['explanation_mc'] = (
        'every transition is an execution of the implementation itself '
        '(no separate model), so every explored trace is validated against '
        'the implementation by construction')
  if only_partial:
    print('(partial run: evidence not written)')
  ev = {
      'property_id': pid, 'tier': tier, 'seed': seed, 'level': mod.LEVEL,
      'coverage': cov, 'assumptions': list(mod.ASSUMPTIONS),
      'wall_s': round(wall, 2), 'violations': len(new_violations),
  }
  if not only_partial:
    write_evidence(pid, ev)
  print('%s tier=%s seed=%d: %d evaluations, %d non-trivial, %d outcome classes, '
        '%d sub-spaces, %d known finding(s), %d violation(s), %.1fs' %
        (pid, tier, seed, tot.evaluations, tot.nontrivial, len(tot.outcomes),
         len(sub), len(matched), len(new_violations), wall))
  if mod.LEVEL == 'model_checking':
    print('  states=%d transitions=%d' % (tot.states, tot.transitions))
  slow = sorted(results, key=lambda d: -d['wall'])[:3]
  print('  slowest tasks: ' + '; '.join('%.0fs %s' % (d['wall'], d.get('spec', '?')) for d in slow))
  for s in sub.values():
    print('  [%s] cases=%d nontrivial=%d complete=%s %.1fs %s' %
          (s['name'], s['cases'], s['nontrivial'], s['complete'], s['wall_s'],
           s['bound']))
  if rc == 0 and vacuous:
    print('HARNESS-ERROR property=%s: vacuous run (one outcome class)' % pid)
    return 2
  return rc


_PYTEST = '''"""Generated: replays one recorded violation without the explorer."""
import sys
sys.path.insert(0, %(verif)r)
from pmc import core


def test_replay():
  assert core.replay(%(path)r) == [], "property still violated"
'''


def write_evidence(pid, ev):
  schema_path = '/root/.vp/EVIDENCE.schema.json'
  try:
    import jsonschema  # only in the tooling venv; optional here
    if os.path.exists(schema_path):
      jsonschema.validate(ev, json.load(open(schema_path)))
  except ImportError:
    _mini_validate(ev)
  os.makedirs(os.path.join(OUT, 'evidence'), exist_ok=True)
  p = os.path.join(OUT, 'evidence', pid + '.json')
  with open(p + '.tmp', 'w') as f:
    json.dump(ev, f, indent=1, sort_keys=True)
  os.replace(p + '.tmp', p)


def _mini_validate(ev):
  c = ev['coverage']
  assert isinstance(ev['seed'], int) and ev['tier'] in ('quick', 'thorough')
  assert c['evaluations'] >= 1 and c['distinct_nontrivial'] >= 2, c
  assert isinstance(c['rule'], str) and len(c['samples']) >= 1
  if ev['level'] == 'model_checking':
    assert c['states'] >= 1 and c['transitions'] >= 1


def replay(path):
  """Re-executes a recorded case on the current tree. Returns the list of
  violation texts ([] = the property now holds for that case)."""
  rec = json.load(open(path))
  mod = importlib.import_module(rec['module'])
  case = rec['case']
  if case['fn'] == '__task__':
    try:
      res = getattr(mod, case['args']['fn'])(**case['args']['args'])
      return [v['what'] for v in res.violations]
    except Exception as e:  # pylint: disable=broad-except
      return ['library raised %s: %s' % (type(e).__name__, e)]
  out = mod.CASES[case['fn']](**case['args'])
  return list(out or [])


def main(argv=None):
  import argparse
  ap = argparse.ArgumentParser()
  ap.add_argument('prop')
  ap.add_argument('--tier', default=os.environ.get('VERIF_TIER', 'quick'))
  ap.add_argument('--seed', type=int,
                  default=int(os.environ.get('VERIF_SEED', '0') or 0))
  ap.add_argument('--replay')
  ap.add_argument('--only', help='run only sub-spaces containing this text')
  a = ap.parse_args(argv)
  pid = a.prop.upper()
  modname = 'pmc.props.' + pid.lower()
  if a.replay:
    out = replay(a.replay)
    if out:
      for o in out:
        print('  violation: %s' % o[:400])
      print('VIOLATION property=%s replay=%s' % (pid, a.replay))
      return 1
    print('replay: property now holds for %s' % a.replay)
    return 0
  try:
    return run_property(modname, a.tier, a.seed, a.only)
  except world.HarnessError as e:
    print('HARNESS-ERROR property=%s: %s' % (pid, e))
    return 2


if __name__ == '__main__':
  sys.exit(main())
