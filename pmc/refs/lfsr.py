"""Linear complexity references.

lc_definition: definition-level. L is feasible iff there are c_1..c_L in GF(2)
with s_j = sum_i c_i s_{j-i} for every j in [L, n). Feasibility is upward closed
(a length-L register can be extended by a delay cell), so binary search on L.
lc_textbook: Massey's 1969 algorithm, connection polynomial as an int.
"""


def _solvable(rows, ncols):
  """rows: ints; bit ncols is the right-hand side. Consistent system?"""
  rows = list(rows)
  for col in range(ncols):
    piv = None
    for r in rows:
      if (r >> col) & 1:
        piv = r
        break
    if piv is None:
      continue
    rows = [r ^ piv if ((r >> col) & 1 and r is not piv) else r for r in rows
            if r is not piv]
  return all(r == 0 for r in rows)  # a leftover row 0...0|1 is inconsistent


def feasible(s, n, L):
  if L >= n:
    return True
  rows = []
  for j in range(L, n):
    row = 0
    for i in range(1, L + 1):
      row |= ((s >> (j - i)) & 1) << (i - 1)
    row |= ((s >> j) & 1) << L
    rows.append(row)
  return _solvable(rows, L)


def lc_definition(s, n):
  lo, hi = 0, n  # smallest feasible L in [0, n]
  while lo < hi:
    mid = (lo + hi) // 2
    if feasible(s, n, mid):
      hi = mid
    else:
      lo = mid + 1
  return lo


def lc_textbook(s, n):
  """Massey. c, b: connection polynomials (bit i = coefficient of x^i)."""
  # srev bit (n-1-j) = s_j, so (srev >> (n-1-N)) has bit i = s_{N-i}.
  srev = 0
  t = s
  srev = int(format(s, '0%db' % n)[::-1], 2) if n else 0
  # the line above reverses: bit j of s -> bit n-1-j
  c, b = 1, 1
  L, m = 0, 1
  for N in range(n):
    d = bin(c & (srev >> (n - 1 - N))).count('1') & 1
    if d == 0:
      m += 1
    elif 2 * L <= N:
      tcopy = c
      c ^= b << m
      L = N + 1 - L
      b = tcopy
      m = 1
    else:
      c ^= b << m
      m += 1
  return L


def lfsr_sequence(poly_taps, seed, degree, n):
  """s_j = xor of s_{j-i} for tap bit (i-1) set; first `degree` bits = seed."""
  s = seed & ((1 << degree) - 1)
  bits = [(s >> i) & 1 for i in range(degree)]
  for j in range(degree, n):
    v = 0
    for i in range(1, degree + 1):
      if (poly_taps >> (i - 1)) & 1:
        v ^= bits[j - i]
    bits.append(v)
  out = 0
  for j, bt in enumerate(bits[:n]):
    out |= bt << j
  return out
