"""Independent transcription of NIST SP 800-22 rev.1a, sections 2.x / 3.x.
Sequences are lists e[0..n-1] of 0/1 (e[i] = epsilon_{i+1}); the library's
integer encoding has bit i = e[i]. p-values are floats computed with mpmath."""
import cmath
import fractions
import itertools
import math

import mpmath

F = fractions.Fraction
mpmath.mp.dps = 40


def bits_of(v, n):
  return [(v >> i) & 1 for i in range(n)]


def igamc(a, x):
  if x < 0:
    return None  # undefined by the formula
  if x == 0:
    return 1.0
  return float(mpmath.gammainc(a, x, mpmath.inf, regularized=True))


def erfc(x):
  return float(mpmath.erfc(x))


def frequency(e):
  n = len(e)
  s = sum(2 * b - 1 for b in e)
  return erfc(abs(s) / math.sqrt(n) / math.sqrt(2))


def block_frequency(e, M):
  n = len(e)
  N = n // M
  chi = 0
  for i in range(N):
    pi = F(sum(e[i * M:(i + 1) * M]), M)
    chi += (pi - F(1, 2))**2
  chi = 4 * M * chi
  return igamc(F(N, 2), float(chi) / 2)


def runs(e):
  """Returns (p, pretest_passed). p is None when the formula is undefined."""
  n = len(e)
  pi = F(sum(e), n)
  pre = abs(float(pi) - 0.5) < 2 / math.sqrt(n)
  v = 1 + sum(1 for i in range(n - 1) if e[i] != e[i + 1])
  pp = pi * (1 - pi)
  if pp == 0:
    return None, pre
  return erfc(abs(v - 2 * n * float(pp)) / (2 * math.sqrt(2 * n) * float(pp))), pre


def longest_run(block):
  best = cur = 0
  for b in block:
    cur = cur + 1 if b else 0
    best = max(best, cur)
  return best


LONGEST_PARAMS = [(128, 8, 1, 4, [0.2148, 0.3672, 0.2305, 0.1875]),
                  (6272, 128, 4, 9, [0.1174, 0.2430, 0.2493, 0.1752, 0.1027, 0.1124]),
                  (750000, 10000, 10, 16,
                   [0.0882, 0.2092, 0.2483, 0.1933, 0.1208, 0.0675, 0.0727])]


def chi_square_p(v, pi, k):
  n = sum(v)
  chi = sum((c - n * p)**2 / (n * p) for c, p in zip(v, pi))
  return igamc(k / 2, chi / 2)


def longest_runs(e):
  n = len(e)
  par = None
  for p in LONGEST_PARAMS:
    if n >= p[0]:
      par = p
  if par is None:
    return 'insufficient'
  _, M, lo, hi, pi = par
  N = n // M
  v = [0] * (hi - lo + 1)
  for i in range(N):
    r = longest_run(e[i * M:(i + 1) * M])
    v[min(max(r, lo), hi) - lo] += 1
  return chi_square_p(v, pi, hi - lo)


def rank_gf2(rows):
  rows = [r for r in rows if r]
  rank = 0
  while rows:
    piv = max(rows)
    rows.remove(piv)
    rank += 1
    hb = piv.bit_length() - 1
    rows = [r ^ piv if (r >> hb) & 1 else r for r in rows]
    rows = [r for r in rows if r]
  return rank


def rank_probability(r, c, rank):
  """Exact probability that a random r x c binary matrix has the given rank."""
  if rank > min(r, c) or rank < 0:
    return F(0)
  p = F(2)**(rank * (c + r - rank) - r * c)
  for i in range(rank):
    p *= (1 - F(2)**(i - c)) * (1 - F(2)**(i - r)) / (1 - F(2)**(i - rank))
  return p


def rank_distribution(r, c, k):
  """[P(rank=m), P(rank=m-1), ..., P(rank=m-k+1), P(rank<=m-k)], m = r (library
  convention: index i <-> rank r - i, last = rank <= r - k)."""
  res = [rank_probability(r, c, r - i) for i in range(k)]
  return res + [1 - sum(res)]


def matrix_rank_test(e, r, c, k):
  n = len(e)
  rows_all = []
  for i in range(n // c):
    row = 0
    for j in range(c):
      row |= e[i * c + j] << j
    rows_all.append(row)
  nm = len(rows_all) // r
  if nm < 1:
    return 'insufficient'
  v = [0] * (k + 1)
  for i in range(nm):
    rk = rank_gf2(rows_all[i * r:(i + 1) * r])
    v[min(k, r - rk)] += 1
  pi = [float(x) for x in rank_distribution(r, c, k)]
  return chi_square_p(v, pi, k)


def spectral(e):
  """Returns (p, margin): margin = min distance of a peak to the threshold."""
  n = len(e)
  x = [2 * b - 1 for b in e]
  half = n // 2
  T = math.sqrt(math.log(1 / 0.05) * n)
  mods = []
  for j in range(half):
    s = sum(x[k] * cmath.exp(-2j * cmath.pi * j * k / n) for k in range(n))
    mods.append(abs(s))
  n0 = 0.95 * n / 2 if n % 2 == 0 else 0.95 * half
  # NIST: N0 = .95 n / 2 ; the library uses 0.95 * len(m) with len(m) = n // 2
  n0 = 0.95 * half
  n1 = sum(1 for m in mods if m < T)
  d = (n1 - n0) / math.sqrt(n * 0.95 * 0.05 / 4)
  margin = min([abs(m - T) for m in mods], default=1.0)
  return erfc(abs(d) / math.sqrt(2)), margin


def is_nonoverlapping(t, m):
  s = format(t, '0%db' % m)
  return not any(s[:m - i] == s[i:] for i in range(1, m))


def count_windows_nonwrap(block, m, template):
  """Number of positions i in [0, len-m] where the window (bit i = lsb) equals the
  template. For non-overlapping templates this equals NIST's skip-ahead count."""
  cnt = 0
  for i in range(len(block) - m + 1):
    w = 0
    for j in range(m):
      w |= block[i + j] << j
    if w == template:
      cnt += 1
  return cnt


def nonoverlapping(e, nblocks, m, template):
  n = len(e)
  M = n // nblocks
  mu = (M - m + 1) / 2**m
  var = M * (1 / 2**m - (2 * m - 1) / 2**(2 * m))
  chi = 0.0
  N = n // M
  for i in range(N):
    w = count_windows_nonwrap(e[i * M:(i + 1) * M], m, template)
    chi += (w - mu)**2 / var
  return igamc(N / 2, chi / 2)


def overlapping_count(block, m):
  cnt = 0
  for i in range(len(block) - m + 1):
    if all(block[i:i + m]):
      cnt += 1
  return cnt


def overlapping_distribution(n, m, k):
  """Exact distribution of the number of (overlapping) runs of m ones in a random
  n-bit string, lumped at k: DP over (current run length capped at m, count)."""
  state = {(0, 0): F(1)}
  for _ in range(n):
    nxt = {}
    for (run, cnt), p in state.items():
      # bit 0
      key = (0, cnt)
      nxt[key] = nxt.get(key, 0) + p / 2
      # bit 1
      r2 = min(run + 1, m)
      c2 = min(k, cnt + (1 if run + 1 >= m else 0))
      key = (r2, c2)
      nxt[key] = nxt.get(key, 0) + p / 2
    state = nxt
  pi = [F(0)] * (k + 1)
  for (run, cnt), p in state.items():
    pi[cnt] += p
  return pi


def overlapping(blocks, n, m, k=5):
  v = [0] * (k + 1)
  for b in blocks:
    v[min(k, overlapping_count(b, m))] += 1
  pi = [float(x) for x in overlapping_distribution(n, m, k)]
  if any(p <= 0 for p in pi):
    return 'undefined'
  return chi_square_p(v, pi, k)


UNIVERSAL_TABLE = {1: (0.7326495, 0.690), 2: (1.5374383, 1.338), 3: (2.4016068, 1.901),
                   4: (3.3112247, 2.358), 5: (4.2534266, 2.705), 6: (5.2177052, 2.954),
                   7: (6.1962507, 3.125), 8: (7.1836656, 3.238), 9: (8.1764248, 3.311),
                   10: (9.1723243, 3.356), 11: (10.170032, 3.384), 12: (11.168765, 3.401),
                   13: (12.168070, 3.410), 14: (13.167693, 3.416), 15: (14.167488, 3.419),
                   16: (15.167379, 3.421)}


def universal(e, L, Q):
  n = len(e)
  nb = n // L
  K = nb - Q
  blocks = []
  for i in range(nb):
    v = 0
    for j in range(L):
      v |= e[i * L + j] << j
    blocks.append(v)
  last = {}
  for i in range(Q):
    last[blocks[i]] = i + 1
  s = 0.0
  for i in range(Q, Q + K):
    s += math.log2((i + 1) - last.get(blocks[i], 0))
    last[blocks[i]] = i + 1
  fn = s / K
  mean, var = UNIVERSAL_TABLE[L]
  c = 0.7 - 0.8 / L + (4 + 32 / L) * K**(-3 / L) / 15
  sigma = c * math.sqrt(var / K)
  return erfc(abs(fn - mean) / (math.sqrt(2) * sigma))


def maurer_mean_var(L, terms=4000):
  """Maurer's expected value and variance of log2 of the gap for block length L
  (gap geometric with parameter 2^-L)."""
  mpmath.mp.dps = 50
  q = mpmath.mpf(2)**(-L)
  mean = mpmath.mpf(0)
  m2 = mpmath.mpf(0)
  top = max(terms, 60 * 2**L)
  for i in range(1, top):
    pr = q * (1 - q)**(i - 1)
    lg = mpmath.log(i, 2)
    mean += pr * lg
    m2 += pr * lg * lg
  return mean, m2 - mean * mean


def linear_complexity(blocks_lc, M):
  """blocks_lc: list of linear complexities; NIST T statistic."""
  mu = M / 2 + (9 + (-1)**(M + 1)) / 36 - (M / 3 + 2 / 9) / 2**M
  v = [0] * 7
  for L in blocks_lc:
    T = (-1)**M * (L - mu) + 2 / 9
    if T <= -2.5:
      v[0] += 1
    elif T <= -1.5:
      v[1] += 1
    elif T <= -0.5:
      v[2] += 1
    elif T <= 0.5:
      v[3] += 1
    elif T <= 1.5:
      v[4] += 1
    elif T <= 2.5:
      v[5] += 1
    else:
      v[6] += 1
  pi = [0.010417, 0.03125, 0.125, 0.5, 0.25, 0.0625, 0.020833]
  return chi_square_p(v, pi, 6)


def psi2(e, m):
  n = len(e)
  if m <= 0:
    return F(0)
  cnt = {}
  for i in range(n):
    w = tuple(e[(i + j) % n] for j in range(m))
    cnt[w] = cnt.get(w, 0) + 1
  return F(2**m, n) * sum(c * c for c in cnt.values()) - n  # exact


def serial(e, m):
  d1 = psi2(e, m) - psi2(e, m - 1)
  d2 = psi2(e, m) - 2 * psi2(e, m - 1) + psi2(e, m - 2)
  return igamc(2**(m - 2), float(d1) / 2), igamc(2**(m - 3), float(d2) / 2), d1, d2


def phi(e, m):
  n = len(e)
  cnt = {}
  for i in range(n):
    w = tuple(e[(i + j) % n] for j in range(m))
    cnt[w] = cnt.get(w, 0) + 1
  return sum(c / n * math.log(c / n) for c in cnt.values())


def apen(e, m):
  n = len(e)
  ap = phi(e, m) - phi(e, m + 1)
  chi = 2 * n * (math.log(2) - ap)
  return igamc(2**(m - 1), chi / 2), chi


def walk(e):
  s, out = 0, []
  for b in e:
    s += 2 * b - 1
    out.append(s)
  return out


def cusum_z(e):
  """(z forward, z backward) per 2.13.4."""
  S = walk(e)
  n = len(e)
  zf = max(abs(x) for x in S)
  zb = max(abs(S[-1] - (S[n - k - 1] if n - k - 1 >= 0 else 0)) for k in range(1, n + 1))
  return zf, zb


def cusum_p_closed(n, z):
  """2.13.4 (4) with floor/ceil-free integer ranges as in the NIST reference code
  (truncation toward zero)."""
  Phi = lambda x: 0.5 * (1.0 + math.erf(x / math.sqrt(2)))
  a = 0.0
  k0 = int((-n / z + 1) / 4)
  k1 = int((n / z - 1) / 4)
  for k in range(k0, k1 + 1):
    a += Phi((4 * k + 1) * z / math.sqrt(n)) - Phi((4 * k - 1) * z / math.sqrt(n))
  b = 0.0
  k0 = int((-n / z - 3) / 4)
  for k in range(k0, k1 + 1):
    b += Phi((4 * k + 3) * z / math.sqrt(n)) - Phi((4 * k + 1) * z / math.sqrt(n))
  return 1.0 - a + b


def cycles(e):
  """Cycles of S' = 0, S_1..S_n, 0 (2.14.4): list of lists of visited states."""
  S = walk(e) + [0]
  out, cur = [], []
  for x in S:
    if x == 0:
      out.append(cur)
      cur = []
    else:
      cur.append(x)
  return out


def excursion_pi(x, k, maxk=5):
  ax = abs(x)
  if k == 0:
    return 1 - 1 / (2 * ax)
  if k < maxk:
    return 1 / (4 * x * x) * (1 - 1 / (2 * ax))**(k - 1)
  return 1 / (2 * ax) * (1 - 1 / (2 * ax))**(maxk - 1)


def excursions(e, x, maxk=5):
  cyc = cycles(e)
  J = len(cyc)
  v = [0] * (maxk + 1)
  for c in cyc:
    v[min(maxk, sum(1 for s in c if s == x))] += 1
  chi = sum((v[k] - J * excursion_pi(x, k))**2 / (J * excursion_pi(x, k))
            for k in range(maxk + 1))
  return igamc(maxk / 2, chi / 2), J


def excursions_variant(e, x):
  cyc = cycles(e)
  J = len(cyc)
  xi = sum(1 for c in cyc for s in c if s == x)
  return erfc(abs(xi - J) / math.sqrt(2 * J * (4 * abs(x) - 2))), J
