"""Schoolbook elliptic-curve arithmetic (affine chord-and-tangent over
pow(x, -1, p)) and a brute-force finder of tiny curves. Independent of the
library under test. The point at infinity is None."""
import functools


class Curve:

  def __init__(self, p, a, b, g=None, n=None, h=1, name=''):
    self.p, self.a, self.b = p, a % p, b % p
    self.g, self.n, self.h, self.name = g, n, h, name

  def on_curve(self, P):
    if P is None:
      return True
    x, y = P
    return (y * y - (x * x * x + self.a * x + self.b)) % self.p == 0

  def neg(self, P):
    if P is None:
      return None
    return (P[0], -P[1] % self.p)

  def add(self, P, Q):
    p = self.p
    if P is None:
      return Q
    if Q is None:
      return P
    x1, y1 = P
    x2, y2 = Q
    if x1 == x2:
      if (y1 + y2) % p == 0:
        return None
      lam = (3 * x1 * x1 + self.a) * pow(2 * y1, -1, p) % p
    else:
      lam = (y2 - y1) * pow(x2 - x1, -1, p) % p
    x3 = (lam * lam - x1 - x2) % p
    return (x3, (lam * (x1 - x3) - y1) % p)

  def mul(self, P, k):
    if k < 0:
      return self.mul(self.neg(P), -k)
    R = None
    while k:
      if k & 1:
        R = self.add(R, P)
      P = self.add(P, P)
      k >>= 1
    return R

  def points(self):
    """All affine points (brute force; tiny p only)."""
    p = self.p
    sq = {}
    for y in range(p):
      sq.setdefault(y * y % p, []).append(y)
    out = []
    for x in range(p):
      rhs = (x * x * x + self.a * x + self.b) % p
      for y in sq.get(rhs, []):
        out.append((x, y))
    return out

  def order_of(self, P):
    k, Q = 1, P
    while Q is not None:
      Q = self.add(Q, P)
      k += 1
    return k


def _is_prime(n):
  if n < 2:
    return False
  i = 2
  while i * i <= n:
    if n % i == 0:
      return False
    i += 1
  return True


@functools.lru_cache(maxsize=None)
def tiny_curves(pmin, pmax, shape, want_h=1, limit=4, offset=0):
  """Curves over primes in [pmin, pmax] whose group has order h * (prime n),
  n > 3, with a generator of order n. shape in {'a-3', 'a0', 'generic'}.
  Deterministic order; `offset` rotates the choice."""
  out = []
  skip = offset
  for p in range(pmin, pmax + 1):
    if not _is_prime(p) or p < 5:
      continue
    if shape == 'a-3':
      a_list = [-3]
    elif shape == 'a0':
      a_list = [0]
    else:
      a_list = [a for a in range(1, p) if a != p - 3][:3]
    for a in a_list:
      # the group order depends only on the isomorphism class (6 classes for a = 0), so a few
      # values of b per (p, a) are enough; move on to the next prime otherwise
      for b in range(1, min(p, 30 if shape != 'a0' else 14)):
        if (4 * a**3 + 27 * b * b) % p == 0:
          continue
        c = Curve(p, a, b)
        pts = c.points()
        N = len(pts) + 1
        if N % want_h:
          continue
        n = N // want_h
        if n <= 3 or not _is_prime(n):
          continue
        g = None
        for P in pts:
          Q = c.mul(P, want_h)
          if Q is not None and c.mul(Q, n) is None:
            g = Q
            break
        if g is None:
          continue
        if skip:
          skip -= 1
          continue
        cur = Curve(p, a if shape == 'a-3' else a % p, b, g, n, want_h,
                    'tiny-p%d-a%d-b%d' % (p, a, b))
        cur.a_literal = a  # -3 literally, the library special-cases a == -3
        out.append(cur)
        break
      if len(out) >= limit:
        return tuple(out)
  return tuple(out)


def to_lib(cur, ec_util):
  """Library EcCurve with the same parameters."""
  return ec_util.EcCurve(cur.name, cur.a_literal, cur.b, cur.p, cur.g[0], cur.g[1],
                         cur.n, cur.h)


def lp(P):
  """reference point -> library point."""
  return (None, None) if P is None else P


def rp(P):
  """library point -> reference point (ints)."""
  if P is None or P[0] is None:
    return None
  return (int(P[0]), int(P[1]))
