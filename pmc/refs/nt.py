"""Boring number-theory references (no import of the library under test)."""
import hashlib
import math

import gmpy2


def sieve(n):
  """All primes < n by trial marking."""
  if n < 3:
    return []
  s = bytearray([1]) * n
  s[0] = s[1] = 0
  for i in range(2, int(n**0.5) + 1):
    if s[i]:
      s[i * i::i] = bytearray(len(range(i * i, n, i)))
  return [i for i in range(n) if s[i]]


SMALL_PRIMES = sieve(20000)


def is_prime_td(n):
  """Trial division (small n only)."""
  if n < 2:
    return False
  i = 2
  while i * i <= n:
    if n % i == 0:
      return False
    i += 1
  return True


def is_prime(n):
  return bool(gmpy2.is_prime(int(n), 40))


def next_prime(n):
  return int(gmpy2.next_prime(int(n)))


def drbg(label, nbytes):
  """Deterministic bytes from SHAKE-128 (fixed 'random' filler)."""
  return hashlib.shake_128(str(label).encode()).digest(nbytes)


def drbg_int(label, bits):
  if bits <= 0:
    return 0
  v = int.from_bytes(drbg(label, (bits + 7) // 8), 'big')
  return v >> (-bits % 8)


def rand_prime(label, bits):
  """Deterministic prime with exactly `bits` bits, top two bits set."""
  v = drbg_int(label, bits) | (1 << (bits - 1)) | (1 << (bits - 2)) | 1
  while True:
    p = next_prime(v)
    if p.bit_length() == bits:
      return p
    v = (1 << (bits - 1)) | (1 << (bits - 2)) | 1


def prod(xs):
  r = 1
  for x in xs:
    r *= x
  return r


def isqrt(n):
  return math.isqrt(n)
