"""Documented severities. README.md lists nine RSA checks explicitly (marked R);
the remaining values are the ones the check classes document in their
constructors at the pinned commit (SeverityType: UNKNOWN=0, LOW=1, MEDIUM=2,
HIGH=3, CRITICAL=4)."""
UNKNOWN, LOW, MEDIUM, HIGH, CRITICAL = 0, 1, 2, 3, 4

RSA = {
    'CheckSizes': MEDIUM, 'CheckExponents': MEDIUM, 'CheckROCA': HIGH,  # R
    'CheckROCAVariant': MEDIUM, 'CheckFermat': CRITICAL,  # R
    'CheckHighAndLowBitsEqual': CRITICAL, 'CheckOpensslDenylist': CRITICAL,  # R
    'CheckContinuedFractions': CRITICAL,  # R
    'CheckBitPatterns': CRITICAL,  # R
    'CheckPermutedBitPatterns': CRITICAL,  # R
    'CheckPollardpm1': CRITICAL,  # R
    'CheckLowHammingWeight': CRITICAL, 'CheckUnseededRand': CRITICAL,
    'CheckSmallUpperDifferences': CRITICAL, 'CheckKeypairDenylist': CRITICAL,  # R
    'CheckGCD': CRITICAL,  # R
    'CheckGCDN1': UNKNOWN,
}
README_DOCUMENTED = {'CheckOpensslDenylist', 'CheckROCA', 'CheckGCD', 'CheckFermat',
                     'CheckContinuedFractions', 'CheckBitPatterns', 'CheckPermutedBitPatterns',
                     'CheckKeypairDenylist', 'CheckPollardpm1'}
EC = {'CheckValidECKey': MEDIUM, 'CheckWeakCurve': MEDIUM, 'CheckWeakECPrivateKey': CRITICAL,
      'CheckECKeySmallDifference': HIGH}
ECDSA = {'CheckLCGNonceGMP': CRITICAL, 'CheckLCGNonceJavaUtilRandom': CRITICAL,
         'CheckNonceMSB': CRITICAL, 'CheckNonceCommonPrefix': CRITICAL,
         'CheckNonceCommonPostfix': CRITICAL, 'CheckNonceGeneralized': CRITICAL,
         'CheckIssuerKey': UNKNOWN, 'CheckCr50U2f': CRITICAL}
