"""One-line definitions of the bit-sequence primitives (bit i of the integer
is element i of the sequence)."""
import collections


def bitlist(seq, length):
  return [(seq >> i) & 1 for i in range(length)]


def windows(seq, length, m, wrap):
  """Multiset (as a list) of all m-bit windows; window at i has bit i as lsb."""
  mask = (1 << m) - 1
  if wrap:
    d = seq | (seq << length)
    return [(d >> i) & mask for i in range(length)]
  return [(seq >> i) & mask for i in range(length - m + 1)]


def frequency_count(seq, length, m, wrap):
  res = [0] * (1 << m)
  for w in windows(seq, length, m, wrap):
    res[w] += 1
  return res


def split(seq, length, m):
  mask = (1 << m) - 1
  return [(seq >> (i * m)) & mask for i in range(length // m)]


def scatter(seq, m):
  n = max(seq.bit_length(), 1)
  return [sum(((seq >> (i + k * m)) & 1) << k for k in range((n + m - 1) // m + 1))
          for i in range(m)]


def runs(seq, length):
  b = bitlist(seq, length)
  if not b:
    return 0
  return 1 + sum(b[i] != b[i + 1] for i in range(length - 1))


def longest_run_of_ones(seq):
  return max((len(r) for r in format(seq, 'b').split('0')), default=0)


def overlapping_runs(seq, m):
  n = seq.bit_length()
  mask = (1 << m) - 1
  return sum(((seq >> i) & mask) == mask for i in range(max(0, n - m + 1)))


def reverse_bits(seq, length):
  return sum(((seq >> i) & 1) << (length - 1 - i) for i in range(length))


def pm1(seq, length):
  return [1 if (seq >> i) & 1 else -1 for i in range(length)]


def popcount(seq):
  return format(seq, 'b').count('1')


def rank_gf2(rows):
  """Textbook Gaussian elimination over GF(2), rows as ints."""
  rows = [r for r in rows if r]
  rank = 0
  while rows:
    piv = max(rows)
    rows.remove(piv)
    rank += 1
    hb = piv.bit_length() - 1
    rows = [r ^ piv if (r >> hb) & 1 else r for r in rows]
    rows = [r for r in rows if r]
  return rank
