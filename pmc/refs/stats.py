"""Exact / high-precision statistical references (fractions + mpmath)."""
import fractions
import functools
import math

import mpmath

mpmath.mp.dps = 60
F = fractions.Fraction


@functools.lru_cache(maxsize=None)
def _fact(n):
  return math.factorial(n)


def irwin_hall_cdf(n, x):
  """Exact CDF of the sum of n U(0,1) variables at rational x."""
  x = F(x)
  if x <= 0:
    return F(0)
  if x >= n:
    return F(1)
  s = F(0)
  for k in range(0, math.floor(x) + 1):
    s += (-1)**k * math.comb(n, k) * (x - k)**n
  return s / _fact(n)


def erlang_sf(k, s):
  """P(sum of k Exp(1) > s) = e^-s * sum_{i<k} s^i/i!  (mpmath)."""
  s = mpmath.mpf(s)
  return mpmath.e**(-s) * mpmath.fsum(s**i / mpmath.factorial(i) for i in range(k))


def fisher(pvalues):
  """Fisher's combination: survival of -sum(log p) under Erlang(k)."""
  if len(pvalues) == 1:
    return mpmath.mpf(pvalues[0])
  if min(pvalues) == 0:
    return mpmath.mpf(0)
  s = -mpmath.fsum(mpmath.log(mpmath.mpf(p)) for p in pvalues)
  return erlang_sf(len(pvalues), s)


def igamc(a, x):
  return mpmath.gammainc(a, x, mpmath.inf, regularized=True)


def normal_cdf(x, mean, var):
  return mpmath.ncdf(x, mean, mpmath.sqrt(var))


def binomial_cdf(n, m):
  """P(at most n heads in m fair tosses), exact."""
  if n < 0:
    return F(0)
  return F(sum(math.comb(m, i) for i in range(0, min(n, m) + 1)), 2**m)


def erfc(x):
  return mpmath.erfc(x)
