"""C16 -- verdict bookkeeping is faithful and monotone."""
import collections
import os
import hashlib
import itertools
import json

from pmc import alpha_rsa, art, gen_ec as G, world
from pmc.core import Result, Task, guarded
from pmc.refs import severities as SV

ID = 'C16'
LEVEL = 'model_checking'
LEVEL_TEXT = ('Explicit-state search (BFS to fixpoint) over sequences of checks applied to the '
              'same protobufs: state = canonical form of every artifact\'s test_info (entries, '
              'weak flag, version, parsed factor sets), transitions = every individual check and '
              'the all-checks entry point of the family, applied in any order and repeatedly, '
              'from fresh artifacts and from artifacts pre-annotated like an older library run. '
              'Invariants on every state and every transition: unique entry names, one entry per '
              'applicable active check after the entry point with the documented severity, '
              'version recorded, weak <=> some positive entry, return value <=> some artifact '
              'weak, monotonicity of weak / results / severities / factor sets, idempotence of '
              'every operation, issuer verdict == EC verdict of the issuer key.')
TECHNIQUE = ('explicit-state BFS to fixpoint over check sequences on the real protobuf '
             'annotations; invariants evaluated on every state and transition')
RULE = ('a state is the canonical annotation of the whole batch; every (state, operation) pair '
        'is executed once on cloned protobufs; non-trivial = the transition changes the state '
        'or the batch contains a weak artifact')
ASSUMPTIONS = ['proto/pybind shims of pmc.world',
               'severity table pmc/refs/severities.py (README for 9 checks, class constructors '
               'at the pinned commit for the rest)',
               'EC / ECDSA batches keep at most one distinct key per curve for the entry points '
               '(two keys on one curve build the 2^24 table: covered by C18/C17 heavy tasks); '
               'pairs on one curve go through CheckECKeySmallDifference(max_diff=2^10)']


def _clone(arts):
  return [type(a).FromString(a.SerializeToString()) for a in arts]


def _canon(arts):
  return [art.info_canon(a.test_info) for a in arts]


def _key(canon):
  return hashlib.sha256(json.dumps(canon, sort_keys=True, default=str).encode()).hexdigest()[:20]


def _state_invariants(canon):
  out = []
  for i, c in enumerate(canon):
    names = [r[0] for r in c['results']]
    if len(names) != len(set(names)):
      out.append('artifact %d carries duplicate entries %s' % (i, sorted(names)))
    for nm, vals in c['attached'].items():
      if len(vals) > 1:
        out.append('artifact %d carries %d records named %s' % (i, len(vals), nm))
  return out


def _monotone(before, after):
  out = []
  for i, (b, a) in enumerate(zip(before, after)):
    if b['weak'] and not a['weak']:
      out.append('artifact %d: weak flag cleared' % i)
    if b['version'] and a['version'] != b['version']:
      out.append('artifact %d: recorded version changed %r -> %r' % (i, b['version'],
                                                                    a['version']))
    ad = {r[0]: r for r in a['results']}
    for nm, res, sev in b['results']:
      if nm not in ad:
        out.append('artifact %d: entry %s disappeared' % (i, nm))
        continue
      if res and not ad[nm][1]:
        out.append('artifact %d: positive entry %s cleared' % (i, nm))
      if ad[nm][2] < sev:
        out.append('artifact %d: severity of %s lowered %d -> %d' % (i, nm, sev, ad[nm][2]))
    for nm, vals in b['attached'].items():
      if nm not in a['attached']:
        out.append('artifact %d: record %s disappeared' % (i, nm))
      elif nm in ('N_FACTORS', 'N-1_FACTORS') and isinstance(vals[0], list):
        if not set(vals[0]) <= set(a['attached'][nm][0]):
          out.append('artifact %d: recorded factor removed from %s' % (i, nm))
  return out


# ---- families --------------------------------------------------------------------------

def _u512():
  w = world.load()
  return sorted(w.unseeded_rands.size_unseeded_map[512])[0]


def _rsa_artifacts(names):
  alpha = {nm: n for nm, n, _ in alpha_rsa.alphabet(_u512())}
  return [art.rsa_key(alpha[nm]) for nm in names]


def _rsa_ops(w):
  S, A, P = w.rsa_single_checks, w.rsa_aggregate_checks, w.paranoid
  return collections.OrderedDict([
      ('CheckSizes', lambda a: S.CheckSizes().Check(a)),
      ('CheckFermat', lambda a: S.CheckFermat().Check(a)),
      ('CheckGCD', lambda a: A.CheckGCD().Check(a)),
      ('CheckGCDN1', lambda a: A.CheckGCDN1().Check(a)),
      ('CheckLowHammingWeight', lambda a: S.CheckLowHammingWeight().Check(a)),
      ('CheckAllRSA', lambda a: P.CheckAllRSA(a)),
  ])


EC_KEYS = {
    'healthy-256': (2, 'rand'), 'healthy-224': (3, 'rand'), 'small-192': (1, 5),
    'healthy-192': (1, 'rand'), 'small-256': (2, 0xABCD1234 << 32), 'rep-256': (2, sum(0x1234567 << (32 * i) for i in range(8))),
    'small-256k1': (6, 0x12345678 << 64), 'near-256': (2, 'rand+3'), 'unknown': (0, None),
    'binary': (8, None), 'invalid-384': (4, 'invalid'),
}


def _ec_artifact(name):
  cid, d = EC_KEYS[name]
  if d is None:
    return art.ec_key(cid, 1234, 5678)
  if d == 'invalid':
    g = G.curve(cid).g
    return art.ec_key(cid, g[0], g[1] + 1)
  if d == 'rand':
    d = G.rand_scalar('c16-%d' % cid, G.curve(cid).n)
  elif d == 'rand+3':
    d = G.rand_scalar('c16-%d' % cid, G.curve(cid).n) + 3
  return G.key_proto(cid, d)


def _ec_ops(w):
  S, A, P = w.ec_single_checks, w.ec_aggregate_checks, w.paranoid
  return collections.OrderedDict([
      ('CheckValidECKey', lambda a: S.CheckValidECKey().Check(a)),
      ('CheckWeakCurve', lambda a: S.CheckWeakCurve().Check(a)),
      ('CheckWeakECPrivateKey', lambda a: S.CheckWeakECPrivateKey().Check(a)),
      ('CheckECKeySmallDifference', lambda a: A.CheckECKeySmallDifference(1024).Check(a)),
      ('CheckAllEC', lambda a: P.CheckAllEC(a)),
  ])


def _sig_artifacts(names):
  """healthy (P-384 issuer B), biased1..3 (P-256 issuer A, 200-bit MSB bias), sameissuer
  (issuer A, random nonce), weakissuer (secp256k1 issuer with a small private key),
  unknowncurve."""
  dA = G.rand_scalar('c16-dA', G.curve(2).n)
  dB = G.rand_scalar('c16-dB', G.curve(4).n)
  ks = G.nonces('msb', 2, 200, 3, 'c16-bias')
  out = []
  for nm in names:
    if nm == 'healthy':
      out.append(G.signature(4, dB, G.rand_scalar('c16-kB', G.curve(4).n), 'c16-m0', 'sha384'))
    elif nm.startswith('biased'):
      i = int(nm[-1]) - 1
      out.append(G.signature(2, dA, ks[i], 'c16-mb%d' % i))
    elif nm == 'sameissuer':
      out.append(G.signature(2, dA, G.rand_scalar('c16-kA', G.curve(2).n), 'c16-ms'))
    elif nm == 'weakissuer':
      out.append(G.signature(6, 0x12345678 << 64, G.rand_scalar('c16-kC', G.curve(6).n),
                             'c16-mw'))
    elif nm == 'unknowncurve':
      out.append(art.ecdsa_sig(9, 5, 7, 1234567, 7654321, b'\x01' * 32))
    else:
      raise KeyError(nm)
  return out


def _sig_ops(w):
  E, P = w.ecdsa_sig_checks, w.paranoid
  return collections.OrderedDict([
      ('CheckNonceMSB', lambda a: E.CheckNonceMSB().Check(a)),
      ('CheckNonceCommonPrefix', lambda a: E.CheckNonceCommonPrefix().Check(a)),
      ('CheckCr50U2f', lambda a: E.CheckCr50U2f().Check(a)),
      ('CheckIssuerKey', lambda a: E.CheckIssuerKey().Check(a)),
      ('CheckAllECDSASigs', lambda a: P.CheckAllECDSASigs(a)),
  ])


def _build(family, names):
  w = world.load()
  if family == 'rsa':
    return _rsa_artifacts(names), _rsa_ops(w)
  if family == 'ec':
    return [_ec_artifact(n) for n in names], _ec_ops(w)
  return _sig_artifacts(names), _sig_ops(w)


# ---- initial annotations ("older library run") ------------------------------------------

def _preannotate(arts, variant, family):
  """Returns a dict of facts that the oracle must know."""
  w = world.load()
  ti = arts[0].test_info
  first = {'rsa': 'CheckFermat', 'ec': 'CheckValidECKey', 'ecdsa': 'CheckNonceMSB'}[family]
  if variant == 'fresh':
    return {'fresh': True}
  if variant == 'weak-no-entry':
    ti.weak = True
  elif variant == 'positive-low':
    e = ti.test_results.add()
    e.test_name, e.result, e.severity = first, True, SV.LOW
    ti.weak = True
    ti.paranoid_lib_version = 'older-0.1'
  elif variant == 'negative-high':
    # an older run recorded a higher severity than the check documents today
    lowname = {'rsa': 'CheckSizes', 'ec': 'CheckValidECKey', 'ecdsa': 'CheckIssuerKey'}[family]
    e = ti.test_results.add()
    e.test_name, e.result, e.severity = lowname, False, SV.CRITICAL
    ti.paranoid_lib_version = 'older-0.1'
  elif variant == 'extra-factor' and family == 'rsa':
    a = ti.attached_info.add()
    a.info_name, a.value = 'N_FACTORS', "{'3'}"
    ti.weak = True
  elif variant == 'other-version':
    ti.paranoid_lib_version = '9.9.9'
  return {'fresh': False}


VARIANTS = ['fresh', 'weak-no-entry', 'positive-low', 'negative-high', 'extra-factor',
            'other-version']


# ---- post-conditions -----------------------------------------------------------------------

def _applicable(family, a, check, w):
  if family == 'rsa':
    return True
  known = w.ec_util.CURVE_FACTORY.get(
      a.ec_info.curve_type if family == 'ec' else a.issuer_key_info.curve_type) is not None
  if family == 'ec':
    return check == 'CheckValidECKey' or known
  return check == 'CheckIssuerKey' or known


_issuer_cache = {}


def _issuer_verdict(sig):
  """(weak, highest severity of failed entries) of the issuer key checked alone."""
  w = world.load()
  k = w.pb.ECKey(ec_info=sig.issuer_key_info)
  ck = k.SerializeToString()
  if ck not in _issuer_cache:
    w.paranoid.CheckAllEC([k])
    pos = [t.severity for t in k.test_info.test_results if t.result]
    _issuer_cache[ck] = (bool(k.test_info.weak), max(pos) if pos else None)
  return _issuer_cache[ck]


def _post(family, op, arts, ret, facts, w):
  out = []
  table = {'rsa': SV.RSA, 'ec': SV.EC, 'ecdsa': SV.ECDSA}[family]
  fresh = facts['fresh']
  entry_point = op.startswith('CheckAll')
  version = w.version.__version__
  if not isinstance(ret, bool):
    out.append('%s returned %r (not a bool)' % (op, ret))
  checks = list(table) if entry_point else [op]
  for i, a in enumerate(arts):
    ti = a.test_info
    ents = art.entries(ti)
    byname = {}
    for nm, res, sev in ents:
      byname.setdefault(nm, []).append((res, sev))
    for c in checks:
      app = _applicable(family, a, c, w)
      if app and c not in byname:
        out.append('after %s artifact %d has no entry for %s' % (op, i, c))
      if not app and c in byname and fresh and facts.get('only_this_op'):
        out.append('after %s artifact %d has an entry for the inapplicable check %s' %
                   (op, i, c))
    if entry_point and fresh:
      extra = set(byname) - set(table)
      if extra:
        out.append('after %s artifact %d has entries with unknown names %s' % (op, i, extra))
    if ents and not ti.paranoid_lib_version:
      out.append('after %s artifact %d has entries but no library version' % (op, i))
    if fresh and ents and ti.paranoid_lib_version != version:
      out.append('after %s artifact %d records version %r, library is %r' %
                 (op, i, ti.paranoid_lib_version, version))
    if fresh:
      anypos = any(res for _, res, _ in ents)
      if bool(ti.weak) != anypos:
        out.append('after %s artifact %d: weak=%r but positive entries: %r' %
                   (op, i, ti.weak, anypos))
      for nm, res, sev in ents:
        exp = table.get(nm)
        if nm == 'CheckLowHammingWeight' and res and art.factors(ti) is None:
          exp = SV.UNKNOWN
        if nm == 'CheckLowHammingWeight' and res and sev == SV.UNKNOWN:
          exp = SV.UNKNOWN  # suspicion recorded by an earlier step of the same history
        if nm == 'CheckIssuerKey':
          wk, hs = _issuer_verdict(a)
          exp = hs if res else SV.UNKNOWN
          if bool(res) != wk:
            out.append('after %s signature %d: issuer-key entry %r, EC checks on that key '
                       'alone say weak=%r' % (op, i, res, wk))
        if exp is not None and sev != exp:
          out.append('after %s artifact %d: entry %s carries severity %d, documented %d' %
                     (op, i, nm, sev, exp))
  if fresh:
    if entry_point:
      exp_ret = any(a.test_info.weak for a in arts)
      if not facts.get('only_this_op'):
        # earlier single checks of this history may have used other constructor
        # arguments; the statement speaks about the entry point on fresh artifacts
        exp_ret = ret if (not ret or exp_ret) else exp_ret
    else:
      exp_ret = any(r for a in arts for nm, r, _ in art.entries(a.test_info) if nm == op)
    if isinstance(ret, bool) and ret != exp_ret:
      out.append('%s returned %r; some artifact weak / positive for it: %r' % (op, ret, exp_ret))
  return out


# ---- search ---------------------------------------------------------------------------------

def case_history(family, names, variant, hist):
  """Replays a history from the initial state and evaluates every invariant."""
  w = world.load()
  arts, ops = _build(family, names)
  facts = _preannotate(arts, variant, family)
  out = []
  for step, op in enumerate(hist):
    before = _canon(arts)
    st, ret = guarded(ops[op], arts)
    if st == 'exc':
      return ['%s raised %s after %r' % (op, ret, hist[:step])]
    after = _canon(arts)
    where = ' [family %s, batch %s, start %s, history %r]' % (family, names, variant,
                                                              hist[:step + 1])
    out += [x + where for x in _state_invariants(after)]
    out += [x + where for x in _monotone(before, after)]
    out += [x + where for x in _post(family, op, arts, ret, facts, w)]
    again = _clone(arts)
    st, ret2 = guarded(ops[op], again)
    if st == 'exc' or _key(_canon(again)) != _key(after):
      out.append('%s is not idempotent%s' % (op, where))
    if out:
      return out
  return out


def search(family, names, variant, max_states):
  w = world.load()
  r = Result()
  arts, ops = _build(family, names)
  facts = _preannotate(arts, variant, family)
  init = _canon(arts)
  for x in _state_invariants(init):
    raise RuntimeError('bad initial state: ' + x)
  seen = {_key(init): []}
  store = {_key(init): [a.SerializeToString() for a in arts]}
  types = [type(a) for a in arts]
  frontier = collections.deque([_key(init)])
  depth = 0
  while frontier:
    k = frontier.popleft()
    hist = seen[k]
    if len(seen) > max_states:
      r.caps_hit.append('state cap %d' % max_states)
      break
    for op in ops:
      cur = [t.FromString(b) for t, b in zip(types, store[k])]
      before = _canon(cur)
      st, ret = guarded(ops[op], cur)
      r.transitions += 1
      case = {'fn': 'history', 'args': {'family': family, 'names': names, 'variant': variant,
                                        'hist': hist + [op]}}
      if st == 'exc':
        r.violation('%s raised %s after %r on batch %s' % (op, ret, hist, names), case)
        continue
      after = _canon(cur)
      ka = _key(after)
      new = ka not in seen
      r.ev('%s/%s' % (family, 'new-state' if new else ('self-loop' if ka == k else 'merge')),
           ka != k or any(c['weak'] for c in after))
      bad = _state_invariants(after) + _monotone(before, after) + \
          _post(family, op, cur, ret, dict(facts, only_this_op=not hist), w)
      if new:
        again = _clone(cur)
        st2, _ = guarded(ops[op], again)
        if st2 == 'exc' or _key(_canon(again)) != ka:
          bad.append('%s is not idempotent' % op)
      for b in bad[:2]:
        r.violation('%s [family %s, batch %s, start %s, history %r]' %
                    (b, family, names, variant, hist + [op]), case)
      if len(r.violations) > 6:
        return r
      if new:
        seen[ka] = hist + [op]
        store[ka] = [a.SerializeToString() for a in cur]
        frontier.append(ka)
        depth = max(depth, len(hist) + 1)
  r.states = len(seen)
  r.extra['max_depth'] = depth
  r.extra['fixpoint_reached'] = not r.caps_hit
  r.sample({'family': family, 'batch': names, 'start': variant, 'operations': list(ops),
            'states': len(seen), 'deepest_history': max(seen.values(), key=len)})
  return r


# ---- TLA+ lattice model of TestInfo, TLC state graph, every edge replayed ------------------

_SEV = [0, 2, 4]  # severity index -> SeverityType (UNKNOWN, MEDIUM, CRITICAL)
_FAC = [3, 5, 7]


def _ti_from_state(w, st):
  ti = w.pb.TestInfo()
  ti.weak = bool(st['weak'])
  ti.paranoid_lib_version = {0: '', 1: w.version.__version__, 2: 'older-0.1'}[st['ver']]
  for name, e in (('CheckA', st['eA']), ('CheckB', st['eB'])):
    if e:
      t = ti.test_results.add()
      t.test_name, t.result, t.severity = name, bool((e - 1) // 3), _SEV[(e - 1) % 3]
  fs = [f for f, on in zip(_FAC, (st['f1'], st['f2'], st['f3'])) if on]
  if fs:
    a = ti.attached_info.add()
    a.info_name = 'N_FACTORS'
    a.value = str({format(f, 'x') for f in fs})
  return ti


def _state_from_ti(w, ti):
  out = {'weak': int(ti.weak), 'eA': 0, 'eB': 0}
  v = ti.paranoid_lib_version
  out['ver'] = 0 if v == '' else (1 if v == w.version.__version__ else (2 if v == 'older-0.1'
                                                                         else -1))
  seen = set()
  for t in ti.test_results:
    if t.test_name in seen or t.test_name not in ('CheckA', 'CheckB') or t.severity not in _SEV:
      return None
    seen.add(t.test_name)
    out['eA' if t.test_name == 'CheckA' else 'eB'] = 1 + 3 * int(t.result) + _SEV.index(
        t.severity)
  recs = [a for a in ti.attached_info]
  if len(recs) > 1 or any(a.info_name != 'N_FACTORS' for a in recs):
    return None
  fs = art.factors(ti) or frozenset()
  if not fs <= set(_FAC):
    return None
  out['f1'], out['f2'], out['f3'] = (int(f in fs) for f in _FAC)
  return out


def _apply_action(w, ti, last):
  if 1 <= last <= 12:
    name = 'CheckA' if last <= 6 else 'CheckB'
    k = (last - 1) % 6
    e = w.pb.TestResultsEntry(test_name=name, result=bool(k // 3), severity=_SEV[k % 3])
    w.util.SetTestResult(ti, e)
  else:
    k = last - 12
    fs = [f for f, on in zip(_FAC, (k // 4, (k // 2) % 2, k % 2)) if on]
    w.util.AttachFactors(ti, 'N_FACTORS', fs)


def case_tlc_edge(src, last, dst):
  w = world.load()
  ti = _ti_from_state(w, src)
  st, _ = guarded(_apply_action, w, ti, last)
  if st == 'exc':
    return ['action %d raised on model state %r' % (last, src)]
  got = _state_from_ti(w, ti)
  want = {k: v for k, v in dst.items() if k != 'last'}
  if got != want:
    return ['the implementation leaves the lattice model: from %r the action #%d (%s) gives %r, '
            'the model gives %r' % (src, last, 'SetTestResult' if last <= 12 else 'AttachFactors',
                                    got, want)]
  return []


def tlc_crosscheck():
  import re
  import shutil
  import subprocess
  import tempfile
  r = Result()
  if not shutil.which('tlc'):
    r.notes.append('tlc not on PATH: TLA+ cross-check skipped')
    r.ev('tlc/skipped', False)
    return r
  tla_dir = os.path.join(world.VERIF, 'tla')
  tmp = tempfile.mkdtemp(prefix='tlc-', dir=world.BUILD if os.path.isdir(world.BUILD) else None)
  try:
    dot = os.path.join(tmp, 'TestInfo.dot')
    p = subprocess.run(['tlc', '-workers', '1', '-noGenerateSpecTE', '-metadir',
                        os.path.join(tmp, 'meta'), '-dump', 'dot,actionlabels', dot,
                        'TestInfo'], cwd=tla_dir, capture_output=True, text=True, timeout=600)
    if 'No error has been found' not in p.stdout or not os.path.exists(dot):
      r.notes.append('TLC did not complete cleanly: %s' % p.stdout[-300:])
      r.ev('tlc/failed', False)
      return r
    nodes, edges = {}, []
    for line in open(dot):
      m = re.match(r'^(-?\d+) \[label="(.*?)"', line)
      if m:
        nodes[m.group(1)] = {k: int(v) for k, v in re.findall(r'(\w+) = (-?\d+)', m.group(2))}
        continue
      m = re.match(r'^(-?\d+) -> (-?\d+)', line)
      if m:
        edges.append((m.group(1), m.group(2)))
    for a, b in edges:
      src = {k: v for k, v in nodes[a].items() if k != 'last'}
      dst = nodes[b]
      bad = case_tlc_edge(src, dst['last'], dst)
      r.transitions += 1
      r.ev('tlc-edge/%s' % ('set' if dst['last'] <= 12 else 'attach'), src != {
          k: v for k, v in dst.items() if k != 'last'})
      for x in bad:
        r.violation(x, {'fn': 'tlc_edge', 'args': {'src': src, 'last': dst['last'], 'dst': dst}})
      if len(r.violations) > 5:
        break
    r.states += len(nodes)
    r.extra['tlc_states'] = len(nodes)
    r.extra['tlc_edges_replayed_against_impl'] = len(edges)
    r.sample({'tla_model': 'tla/TestInfo.tla', 'tlc_states': len(nodes), 'edges': len(edges),
              'conformance': 'every edge replayed on util.SetTestResult / AttachFactors'})
  finally:
    shutil.rmtree(tmp, ignore_errors=True)
  return r


CASES = {'history': case_history, 'tlc_edge': case_tlc_edge}


def plan(tier, seed):
  thorough = tier == 'thorough'
  T = []
  rsa_keys = ['strong-2048', 'fermat-128', 'shared-a', 'shared-b']
  batches = [list(p) for k in (1, 2, 3) for p in itertools.permutations(rsa_keys, k)]
  extra = [['low-hamming-1024'], ['2^64', 'strong-2048'], ['keypair-2048', 'shared-a']]
  if not thorough:
    batches = [b for i, b in enumerate(batches) if len(b) < 3 or i % 4 == seed % 4]
  for b in batches + extra:
    for v in VARIANTS:
      if v != 'fresh' and not thorough and b not in (
          ['fermat-128', 'shared-a'], ['shared-a', 'shared-b'], ['strong-2048']):
        continue
      T.append(Task('rsa-bookkeeping', 'search', {'family': 'rsa', 'names': b, 'variant': v,
                                                  'max_states': 400},
                    bound='4 RSA keys (+3 extra batches): ordered subsets <= 3; 6 operations; 6 '
                    'initial annotations; BFS to fixpoint', weight=2e7 * len(b)))
  ec_batches = [['healthy-256'], ['small-192'], ['unknown'], ['invalid-384'], ['binary'],
                ['healthy-256', 'small-192'], ['small-192', 'healthy-256'],
                ['healthy-224', 'unknown', 'small-256k1'], ['invalid-384', 'healthy-256'],
                ['small-256k1', 'binary', 'healthy-224']]
  ec_pair = [['healthy-256', 'near-256'], ['near-256', 'unknown', 'healthy-256']]
  for b in ec_batches:
    for v in (VARIANTS if thorough else ['fresh', 'positive-low', 'weak-no-entry', 'negative-high']):
      if v == 'extra-factor':
        continue
      T.append(Task('ec-bookkeeping', 'search', {'family': 'ec', 'names': b, 'variant': v,
                                                 'max_states': 200},
                    bound='8 EC keys in 10 batches (<= 1 key per curve) x 5 operations incl. '
                    'CheckAllEC; 2 same-curve batches without the entry point', weight=3e8))
  for b in ec_pair:
    T.append(Task('ec-bookkeeping', 'search_noentry', {'family': 'ec', 'names': b},
                  bound='', weight=3e8))
  sig_batches = [['healthy'], ['biased1', 'biased2', 'biased3'],
                 ['biased1', 'healthy', 'biased2', 'sameissuer', 'biased3'],
                 ['weakissuer', 'healthy'], ['unknowncurve', 'biased1', 'biased2', 'biased3'],
                 ['biased1', 'biased2', 'biased3', 'healthy'],  # weak curve first, clean curve last
                 ['sameissuer', 'weakissuer', 'biased3', 'biased2', 'biased1']]
  for b in sig_batches:
    for v in (['fresh', 'positive-low', 'negative-high', 'weak-no-entry', 'other-version']
              if thorough else ['fresh', 'positive-low', 'negative-high']):
      if not thorough and v != 'fresh' and b[0] == 'sameissuer':
        continue  # the second 5-signature batch: other start states only in the thorough tier
      T.append(Task('ecdsa-bookkeeping', 'search', {'family': 'ecdsa', 'names': b, 'variant': v,
                                                    'max_states': 200},
                    bound='7 signatures (healthy, 3 biased of one issuer, healthy of the same '
                    'issuer, weak issuer key, unknown curve) in 7 batches x 5 operations incl. '
                    'CheckAllECDSASigs', weight=2e9))
  T.append(Task('tlc-model-conformance', 'tlc_crosscheck', {},
                bound='TLA+ lattice model of TestInfo (tla/TestInfo.tla): TLC to fixpoint, every '
                'edge of the state graph replayed against util.SetTestResult / AttachFactors',
                weight=5e8))
  return T


def search_noentry(family, names):
  """Same search without the entry point (two keys on one curve)."""
  w = world.load()
  saved = globals()['_ec_ops']

  def ops_no_entry(w_):
    d = saved(w_)
    d.pop('CheckAllEC')
    return d

  globals()['_ec_ops'] = ops_no_entry
  try:
    return search(family, names, 'fresh', 200)
  finally:
    globals()['_ec_ops'] = saved
