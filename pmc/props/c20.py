"""C20 -- bundled generators return exactly the requested bits, reproducibly."""
import hashlib
import itertools
import os
import pickle
import random

from pmc import world
from pmc.core import Result, Task, guarded, isolated

ID = 'C20'
LEVEL = 'model_checking'
LEVEL_TEXT = ('Exhaustive enumeration of (generator, n, seed) for every registry name and '
              'every n in 1..1024 (4096 thorough) plus word-boundary sizes up to 2^16: range '
              '0 <= r < 2^n; explicit-state search (BFS to fixpoint) over call sequences of '
              'a 36-call alphabet with state = (global random state, all generator instance '
              'attributes): every call returns what the same call returns in a fresh process; '
              'environment-answer enumeration of os.urandom patterns for the unseeded paths; '
              'independent java.util.Random/BigInteger and truncated-LCG models.')
TECHNIQUE = ('explicit-state BFS to fixpoint over call histories (purity) + exhaustive '
             'enumeration of (generator, n, seed) and of os.urandom answers on the real code')
RULE = ('every (name, n, seed) in the stated ranges; distinct by construction; non-trivial = '
        'n is not a multiple of the generator word size (masking path) or the call is part of '
        'a history')
ASSUMPTIONS = ['proto/pybind shims of pmc.world', 'numpy bit generators as installed',
               'java.util.Random / BigInteger(numBits, rnd) transcribed from the JDK javadoc',
               'truncated-LCG model compared at n % 8 == 0 only (the partial-byte convention is '
               'the subject of known finding K1)']

SEEDS = [1, 2, 2**31, 2**64 + 5, 2**200 + 9, 2**64, 3 * 2**64, 2**128, 2**160, 2**48]


def _names():
  return world.load().rng.RngNames()


def _unseedable(name):
  return name == 'urandom' or name.startswith('subsetsum')


def case_range(name, n, seed):
  w = world.load()
  g = w.rng.GetRng(name)
  st, v = guarded(g.RandomBits, n, seed=seed)
  if st == 'exc':
    return ['%s.RandomBits(%d, seed=%d) raised %s' % (name, n, seed, v)]
  if isinstance(v, bool) or not isinstance(v, int) and not hasattr(v, '__index__'):
    return ['%s.RandomBits(%d, seed=%d) returned %r (not an integer)' % (name, n, seed, v)]
  v = int(v)
  if not 0 <= v < (1 << n):
    return ['%s.RandomBits(%d, seed=%d) = %#x is not below 2^%d' % (name, n, seed, v, n)]
  if not _unseedable(name):
    st2, v2 = guarded(g.RandomBits, n, seed=seed)
    if st2 == 'exc' or int(v2) != v:
      return ['%s.RandomBits(%d, seed=%d) is not reproducible: %#x then %r' %
              (name, n, seed, v, v2)]
  return []


def _k1_key(name, n, seed, v):
  """Known finding K1: truncated-LCG generators, n % 8 != 0, excess confined to the top
  partial byte. Anything else gets a case-specific key."""
  if name.startswith('trunclcg') and n % 8 and v < (1 << (8 * ((n + 7) // 8))):
    return {'finding': 'trunclcg-top-partial-byte-not-masked', 'generator': name}
  return None


def ranges(name, ns, seeds):
  w = world.load()
  r = Result()
  g = w.rng.GetRng(name)
  for n in ns:
    for seed in seeds:
      bad = case_range(name, n, seed)
      r.ev('%s' % ('aligned' if n % 64 == 0 else ('byte' if n % 8 == 0 else 'partial')),
           n % 64 != 0)
      r.transitions += 1
      for b in bad:
        key = None
        st, v = guarded(g.RandomBits, n, seed=seed)
        if st == 'ok':
          key = _k1_key(name, n, seed, int(v))
        r.violation(b, {'fn': 'range', 'args': {'name': name, 'n': n, 'seed': seed}}, key=key)
  r.states += 1
  r.sample({'generator': name, 'n': [ns[0], ns[-1]], 'count_n': len(ns), 'seeds': seeds})
  return r


# ---- os.urandom answers (M3) ------------------------------------------------

class _Urandom:
  """Scripted os.urandom."""

  def __init__(self, pattern):
    self.pattern = pattern
    self.calls = 0

  def __call__(self, k):
    self.calls += 1
    if self.calls > 5000:
      raise RuntimeError('horizon: generator keeps asking for randomness')
    p = self.pattern
    if p == 'ff':
      return b'\xff' * k
    if p == '80':
      return (b'\x80' + b'\x00' * k)[:k]
    if p == '01':
      return (b'\x00' * k + b'\x01')[-k:] if k else b''
    if p == 'ctr':
      return bytes((self.calls * 37 + i * 11 + 1) % 256 for i in range(k))
    if p == 'alt':
      return bytes(0xaa if (i + self.calls) % 2 else 0x55 for i in range(k))
    raise ValueError(p)


def case_urandom(name, n, pattern):
  w = world.load()
  g = w.rng.GetRng(name)
  mod_os = w.rng.os
  real = mod_os.urandom
  stub = _Urandom(pattern)
  mod_os.urandom = stub
  try:
    st, v = guarded(g.RandomBits, n)
  finally:
    mod_os.urandom = real
  if st == 'exc':
    if 'horizon' in v:
      return []  # a rejection loop that cannot terminate on this scripted answer
    return ['%s.RandomBits(%d) with os.urandom=%s raised %s' % (name, n, pattern, v)]
  v = int(v)
  if not 0 <= v < (1 << n):
    return ['%s.RandomBits(%d) with os.urandom pattern %s = %#x is not below 2^%d' %
            (name, n, pattern, v, n)]
  return []


def urandom_answers(name, ns):
  w = world.load()
  r = Result()
  g = w.rng.GetRng(name)
  for n in ns:
    for pattern in ('ff', '80', '01', 'ctr', 'alt'):
      if name in ('mt19937',) or name in ('pcg64', 'philox', 'sfc64'):
        continue  # seed=None goes to the OS entropy of random / numpy, not os.urandom
      bad = case_urandom(name, n, pattern)
      r.ev('urandom/%s' % pattern, n % 8 != 0)
      r.transitions += 1
      for b in bad:
        key = None
        if name.startswith('trunclcg') and n % 8:
          key = {'finding': 'trunclcg-top-partial-byte-not-masked', 'generator': name}
        r.violation(b, {'fn': 'urandom', 'args': {'name': name, 'n': n, 'pattern': pattern}},
                    key=key)
  r.states += 1
  r.sample({'generator': name, 'unseeded': True, 'urandom_patterns':
            ['ff', '80', '01', 'ctr', 'alt'], 'n': [ns[0], ns[-1]]})
  return r


# ---- models -----------------------------------------------------------------

def java_biginteger(num_bits, seed):
  """new BigInteger(numBits, new java.util.Random(seed)) per the JDK."""
  mask = (1 << 48) - 1
  state = (seed ^ 0x5DEECE66D) & mask

  def next32():
    nonlocal state
    state = (state * 0x5DEECE66D + 0xB) & mask
    v = state >> 16
    return v - (1 << 32) if v >= (1 << 31) else v  # (int)

  num_bytes = (num_bits + 7) // 8
  out = bytearray(num_bytes)
  i = 0
  while i < num_bytes:  # Random.nextBytes
    rnd = next32()
    for _ in range(min(num_bytes - i, 4)):
      out[i] = rnd & 0xff
      rnd >>= 8
      i += 1
  if num_bytes:
    excess = 8 * num_bytes - num_bits
    out[0] &= (1 << (8 - excess)) - 1
  return int.from_bytes(out, 'big')


_LCG_MULT = {32: 2891336453, 40: 330169576829, 48: 181465474592829, 60: 454339144066433781,
             63: 9219741426499971445, 64: 2862933555777941757,
             96: 75564983892026345434470042133,
             128: 47026247687942121848144207491837418733,
             256: 92535799708728563004421432684894516311017097014017594320373447727772634342485,
             34: 52765661, 35: 22475205, 36: 12132445}


def trunc_lcg_bytes(w_bits, seed, nbytes):
  """state <- a*state + 1 mod 2^(2w); emit the top w bits as ceil(w/8) little-endian bytes.
  Multiplier: first table entry (in the order of the L'Ecuyer table used by the class) whose
  state size is >= 2w."""
  order = [32, 34, 35, 36, 40, 48, 60, 63, 64, 96, 128, 256]
  a = _LCG_MULT[256]
  for s in order:
    if s >= 2 * w_bits:
      a = _LCG_MULT[s]
      break
  state = seed
  out = bytearray()
  ob = (w_bits + 7) // 8
  while len(out) < nbytes:
    state = (state * a + 1) % (1 << (2 * w_bits))
    out += (state >> w_bits).to_bytes(ob, 'little')
  return bytes(out[:nbytes])


def case_model(name, n, seed):
  w = world.load()
  g = w.rng.GetRng(name)
  st, v = guarded(g.RandomBits, n, seed=seed)
  if st == 'exc':
    return ['%s.RandomBits(%d, seed=%d) raised %s' % (name, n, seed, v)]
  if name == 'java':
    exp = java_biginteger(n, seed)
  else:
    wbits = int(name[len('trunclcg'):])
    exp = int.from_bytes(trunc_lcg_bytes(wbits, seed, n // 8), 'little')
  if int(v) != exp:
    return ['%s.RandomBits(%d, seed=%d) = %#x, the modelled generator gives %#x' %
            (name, n, seed, int(v), exp)]
  return []


def models(name, ns, seeds):
  r = Result()
  for n in ns:
    if name != 'java' and n % 8:
      continue
    for seed in seeds:
      bad = case_model(name, n, seed)
      r.ev('model/%s' % ('java' if name == 'java' else 'trunclcg'), True)
      r.transitions += 1
      for b in bad:
        r.violation(b, {'fn': 'model', 'args': {'name': name, 'n': n, 'seed': seed}})
  r.states += 1
  r.sample({'model_of': name, 'n': [ns[0], ns[-1]], 'seeds': seeds})
  return r


# ---- purity: BFS over call histories (M2) ------------------------------------

PURITY_GENS = ['mt19937', 'shake128', 'trunclcg32', 'java', 'pcg64', 'xorwow', 'mwc64',
               'lehmer128/16', 'lcgnist']
PURITY_NS = [1, 63, 200]
PURITY_SEEDS = [1, 2**64 + 5]


def _alphabet():
  return [(g, n, s) for g in PURITY_GENS for n in PURITY_NS for s in PURITY_SEEDS]


def _stable(v, depth=0):
  """repr without memory addresses; numpy generators by their bit-generator state."""
  import re
  if depth > 4:
    return '...'
  bg = getattr(v, 'bit_generator', None)
  if bg is not None and hasattr(bg, 'state'):
    return 'Generator:' + repr(bg.state)
  if hasattr(v, 'state') and type(v).__module__.startswith('numpy'):
    return 'BitGenerator:' + repr(v.state)
  if isinstance(v, dict):
    return '{' + ','.join(sorted('%s:%s' % (_stable(k, depth + 1), _stable(x, depth + 1))
                                 for k, x in v.items())) + '}'
  if isinstance(v, (list, tuple)):
    return '[' + ','.join(_stable(x, depth + 1) for x in v) + ']'
  return re.sub(r' at 0x[0-9a-f]+', '', repr(v))


def _canon(w):
  """Canonical hash of all mutable state the generators can reach."""
  h = hashlib.sha256()
  h.update(pickle.dumps(random.getstate()))
  for name in sorted(w.rng.RNGS):
    g = w.rng.RNGS[name]
    h.update(name.encode())
    h.update(repr(sorted((k, _stable(v)) for k, v in vars(g).items())).encode())
  mod = w.rng
  for k in sorted(vars(mod)):
    v = vars(mod)[k]
    if isinstance(v, (int, str, float, bytes, tuple, list, dict)) and not k.startswith('__') \
        and k != 'RNGS':
      h.update(('%s=%r' % (k, v)).encode())
  return h.hexdigest()[:20]


def _baseline(calls):
  """Runs each call alone in a forked child that has done nothing else."""
  out = {}
  for c in calls:
    def one(c=c):
      w = world.load()
      return int(w.rng.GetRng(c[0]).RandomBits(c[1], seed=c[2]))
    st, v = isolated(one)
    if st != 'ok':
      raise RuntimeError('baseline call %r failed: %s' % (c, v))
    out[c] = v
  return out


def _replay_history(hist):
  """Rebuilds a state from the initial state by replaying a history."""
  import importlib
  w = world.load()
  importlib.reload(w.rng)  # fresh generator instances and module globals
  random.seed(0)  # the initial global state of every history
  res = None
  for c in hist:
    res = int(w.rng.GetRng(c[0]).RandomBits(c[1], seed=c[2]))
  return w, res


def case_history(hist):
  hist = [tuple(c) for c in hist]
  base = _baseline([hist[-1]])
  _, res = _replay_history(hist)
  if res != base[hist[-1]]:
    return ['after history %r the call %r returned %#x; alone in a fresh process it returns '
            '%#x' % (hist[:-1], hist[-1], res, base[hist[-1]])]
  return []


def purity(max_depth):
  import collections
  r = Result()
  alpha = _alphabet()
  base = _baseline(alpha)
  w, _ = _replay_history([])
  init = _canon(w)
  seen = {init: []}
  frontier = collections.deque([[]])
  depth_reached = 0
  replay_checked = False
  while frontier:
    hist = frontier.popleft()
    if len(hist) >= max_depth:
      r.caps_hit.append('depth cap %d reached with non-empty frontier' % max_depth)
      continue
    for c in alpha:
      w, _ = _replay_history(hist)
      if _canon(w) != [k for k, v in seen.items() if v == hist][0]:
        raise RuntimeError('replay divergence on prefix %r' % (hist,))
      res = int(w.rng.GetRng(c[0]).RandomBits(c[1], seed=c[2]))
      r.transitions += 1
      r.ev('history-call/%s' % c[0], True)
      if res != base[c]:
        r.violation('after history %r the call %r returned %#x; alone in a fresh process it '
                    'returns %#x' % (hist, c, res, base[c]),
                    {'fn': 'history', 'args': {'hist': [list(x) for x in hist + [c]]}})
        if len(r.violations) > 5:
          return r
      k = _canon(w)
      if k not in seen:
        seen[k] = hist + [c]
        frontier.append(hist + [c])
        depth_reached = max(depth_reached, len(hist) + 1)
  # replay determinism: one recorded history twice
  longest = max(seen.values(), key=len)
  w1, _ = _replay_history(longest)
  k1 = _canon(w1)
  w2, _ = _replay_history(longest)
  if k1 != _canon(w2):
    raise RuntimeError('replay of %r is not deterministic' % (longest,))
  r.states = len(seen)
  r.extra['max_depth'] = depth_reached
  r.extra['fixpoint_reached'] = not r.caps_hit
  r.extra['replay_determinism_checked'] = True
  r.sample({'alphabet': '%d calls: %s x n in %s x seeds %s' %
            (len(alpha), PURITY_GENS, PURITY_NS, PURITY_SEEDS),
            'states': len(seen), 'longest_history': [list(x) for x in longest]})
  return r


CASES = {'range': case_range, 'urandom': case_urandom, 'model': case_model,
         'history': case_history}


def _ns(thorough):
  top = 8192 if thorough else 2048
  ns = set(range(1, top + 1))
  for k in range(11, 17):
    for d in (0, 1, 7, 8, 9, 31, 33, 63, 65):
      ns.add(2**k + d)
      ns.add(2**k - d)
  return sorted(x for x in ns if x >= 1)


def plan(tier, seed):
  thorough = tier == 'thorough'
  T = []
  ns = _ns(thorough)
  seeds = SEEDS + ([seed + 1000003] if seed else [])
  for name in _names():
    if _unseedable(name):
      nsu = [n for n in ns if n <= (1100 if thorough else 260) or n in (511, 512, 513, 1023, 1025, 2**12 + 1)]
      T.append(Task('urandom-answers', 'urandom_answers', {'name': name, 'ns': nsu},
                    bound='unseedable and seed=None paths over 5 scripted os.urandom patterns',
                    weight=len(nsu) * 3000))
      continue
    chunk = 700
    for i in range(0, len(ns), chunk):
      T.append(Task('range-all-n', 'ranges', {'name': name, 'ns': ns[i:i + chunk],
                                              'seeds': seeds},
                    bound='every registry name x every n in 1..%d and 2^k +- d up to 2^16 x %d '
                    'seeds: 0 <= r < 2^n, reproducible' % (8192 if thorough else 2048,
                                                           len(seeds)),
                    weight=sum(ns[i:i + chunk]) * (8 if name == 'lcgnist' else 1)))
    nsu = [n for n in ns if n <= 300]
    T.append(Task('urandom-answers', 'urandom_answers', {'name': name, 'ns': nsu},
                  bound='', weight=len(nsu) * 500))
  mn = [n for n in ns if n <= (4096 if thorough else 2048)]
  for name in ['java', 'trunclcg16', 'trunclcg20', 'trunclcg28', 'trunclcg32', 'trunclcg64',
               'trunclcg128']:
    T.append(Task('models', 'models', {'name': name, 'ns': mn, 'seeds': [1, 2, 0x123456789ABD,
                                                                       2**47 + 3]},
                  bound='java.util.Random+BigInteger for every n <= %d x 4 seeds; truncated LCG '
                  'definition at every n %% 8 == 0' % mn[-1], weight=5e6))
  T.append(Task('purity-bfs', 'purity', {'max_depth': 4 if thorough else 3},
                bound='BFS over call histories to fixpoint (depth cap %d)' %
                (4 if thorough else 3), weight=1e9))
  return T
