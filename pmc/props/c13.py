"""C13 -- randomness suite passes good generators, fails documented weak ones,
by its rule."""
import itertools
import math

import mpmath

from pmc import world
from pmc.core import Result, Task, guarded
from pmc.refs import stats as rs

ID = 'C13'
LEVEL = 'model_checking'
LEVEL_TEXT = ('Explicit-state exploration of the repeat/fail decision machine: a real '
              'TestStructure is driven by a scripted stub test through every sequence of '
              'per-run answers up to depth 3 (4 thorough) for 18 (fail, repeat, min_repetitions) '
              'configurations; after every Run the combined p-values, per-name states, '
              'finished flag and Failed() are compared with a reference model of the stated '
              'rule; the two entry points are driven with scripted test lists. Fixed grids of '
              'bundled weak generators (must fail) and seed windows of the good generators (must '
              'pass) exercise the first two sentences.')
TECHNIQUE = ('explicit-state BFS over answer histories of the real TestStructure / entry points '
             'vs. reference decision model; exhaustive seed windows for generator verdicts')
RULE = ('every answer sequence up to the depth bound x every configuration; distinct by '
        'construction (a state is the history reaching it); non-trivial = history of length >= 2 '
        '(Fisher combination active) or threshold tie')
ASSUMPTIONS = ['proto/pybind shims of pmc.world', 'mpmath Erlang survival for Fisher',
               'floating-point ties: when the reference combination is within 1e-12 (relative) of '
               'a threshold and k >= 2, the state is not asserted',
               'histories in which the set of names changes between runs are checked for the '
               'per-name facts only (the statement does not say whether an absent name keeps the '
               'structure unfinished)',
               'lehmer128/8 and mwc512 are documented blind spots and excluded']

ULP = lambda x: math.ulp(x) if x else 5e-324


def _answers(fail, rep, small):
  """Alphabet of one run's answer (simplest first)."""
  vals = [0.5, 1.0, 0.0, 1e-300, fail, rep]
  if not small:
    vals += [fail - ULP(fail), fail + ULP(fail), rep - ULP(rep), rep + ULP(rep)]
  vals = [v for v in dict.fromkeys(vals) if 0 <= v <= 1]
  out = [('float', v) for v in vals]
  out += [('int', 0), ('int', 1)]
  sub = [0.5, rep, fail, 0.0] if small else [0.5, rep, fail / 2 if fail else 0.0, 0.0, 1.0]
  sub = list(dict.fromkeys(sub))
  out += [('named', [('a', x), ('b', y)]) for x in sub for y in sub]
  out += [('named', [('a', x)]) for x in sub[:3]]
  out += [('named', []), ('insufficient', None)]
  return out


class Model:
  """Reference model of the stated rule (one sub-test structure)."""

  def __init__(self, fail, rep, min_rep):
    self.fail, self.rep, self.min_rep = fail, rep, min_rep
    self.pv = {}
    self.combined = {}
    self.state = {}
    self.tie = {}
    self.runs = 0
    self.finished = False
    self.names_changed = False
    self.last_names = None

  def run(self, ans):
    kind, val = ans
    self.runs += 1
    if kind == 'insufficient':
      self.finished = True
      return
    if kind in ('float', 'int'):
      val = [('result', val)]
    names = [nm for nm, _ in val]
    if self.last_names is not None and set(names) != set(self.last_names):
      self.names_changed = True
    self.last_names = names
    undecided = 0
    for nm, p in val:
      self.pv.setdefault(nm, []).append(p)
      ps = self.pv[nm]
      k = len(ps)
      comb = rs.fisher(ps)
      thr = rs.fisher([self.rep] * k)
      self.combined[nm] = comb
      tie = k >= 2 and (abs(comb - self.fail) <= 1e-12 * max(self.fail, 1e-300) or
                        abs(comb - thr) <= 1e-12 * max(float(thr), 1e-300))
      self.tie[nm] = tie
      if comb < self.fail:
        self.state[nm] = 'FAILED'
      elif thr < comb:
        self.state[nm] = 'PASSED'
      else:
        self.state[nm] = 'UNDECIDED'
        undecided += 1
    self.finished = undecided == 0 and self.runs >= self.min_rep


class _Stub:

  def __init__(self, script, after=('float', 0.5)):
    self.script = list(script)
    self.after = after
    self.calls = 0
    self.__name__ = 'Stub'

  def __call__(self, bits, n, *params):
    w = world.load()
    ans = self.script[self.calls] if self.calls < len(self.script) else self.after
    self.calls += 1
    kind, val = ans
    if kind == 'insufficient':
      raise w.nist.InsufficientDataError('scripted')
    if kind == 'named':
      return list(val)
    if kind == 'int':
      return int(val)
    return float(val)


def _relclose(a, b):
  a, b = float(a), float(b)
  if a == b:
    return True
  return abs(a - b) <= 1e-9 * max(abs(a), abs(b)) + 1e-300


def case_machine(fail, rep, min_rep, hist):
  """Replays one answer history on a fresh TestStructure; checks every step."""
  w = world.load()
  hist = [(k, [tuple(x) for x in v] if k == 'named' else v) for k, v in hist]
  stub = _Stub(hist)
  ts = w.suite.TestStructure(stub, [], fail, rep, min_repetitions=min_rep)
  model = Model(fail, rep, min_rep)
  out = []
  for step, ans in enumerate(hist):
    if model.finished and False:
      break
    st, ret = guarded(ts.Run, 0, 1)
    model.run(ans)
    where = 'config (fail=%g, repeat=%g, min_rep=%d), after answers %r' % (
        fail, rep, min_rep, hist[:step + 1])
    if st == 'exc':
      out.append('TestStructure.Run raised %s; %s' % (ret, where))
      return out
    if ans[0] == 'insufficient':
      if not ts.finished or ret is not True:
        out.append('insufficient data did not finish the structure; %s' % where)
      continue
    for nm in model.combined:
      if nm not in ts.combined_p_values:
        out.append('no combined p-value for %r; %s' % (nm, where))
        continue
      if not _relclose(ts.combined_p_values[nm], model.combined[nm]):
        out.append('combined p-value of %r is %r, Fisher combination of %r is %.15g; %s' %
                   (nm, ts.combined_p_values[nm], model.pv[nm], float(model.combined[nm]),
                    where))
      if not model.tie[nm] and ts.state.get(nm).name != model.state[nm]:
        out.append('state of %r is %s, the rule gives %s (combined %.6g, fail %g, Fisher(repeat^k) '
                   '%.6g); %s' % (nm, ts.state.get(nm).name, model.state[nm],
                                  float(model.combined[nm]), fail,
                                  float(rs.fisher([rep] * len(model.pv[nm]))), where))
    ties = any(model.tie.values())
    if not ties and not model.names_changed:
      if bool(ts.finished) != model.finished or bool(ret) != model.finished:
        out.append('finished=%r (Run returned %r), the rule gives %r; %s' %
                   (ts.finished, ret, model.finished, where))
    if not ties:
      exp_failed = any(s == 'FAILED' for s in model.state.values())
      if bool(ts.Failed()) != exp_failed:
        out.append('Failed() = %r, the rule gives %r; %s' % (ts.Failed(), exp_failed, where))
    if ts.runs != model.runs:
      out.append('runs = %d after %d calls; %s' % (ts.runs, model.runs, where))
    if out:
      return out
  return out


CONFIGS = [(1e-9, 0.01), (0.01, 0.01), (1e-9, 1e-9), (0.5, 0.1), (0.0, 0.0), (1.0, 1.0)]


def machine(fail, rep, min_rep, depth, small, first):
  r = Result()
  alpha = _answers(fail, rep, small)
  firsts = alpha[first::8]
  for d in range(1, depth + 1):
    for f in firsts:
      for rest in itertools.product(alpha, repeat=d - 1):
        hist = [f] + list(rest)
        bad = case_machine(fail, rep, min_rep, hist)
        r.transitions += d
        r.states += 1
        r.ev('depth%d' % d, d >= 2)
        for b in bad[:1]:
          r.violation(b, {'fn': 'machine', 'args': {
              'fail': fail, 'rep': rep, 'min_rep': min_rep,
              'hist': [[k, [list(x) for x in v] if k == 'named' else v] for k, v in hist]}})
        if len(r.violations) > 10:
          return r
  r.extra['max_depth'] = depth
  r.sample({'config': [fail, rep, min_rep], 'alphabet': len(alpha), 'depth': depth,
            'first_answers': [repr(f) for f in firsts[:3]]})
  return r


# ---- entry points with scripted test lists ---------------------------------------------

DRIVER_ALPHA = [('float', 0.5), ('float', 0.005), ('float', 1e-12), ('insufficient', None),
                ('named', [('a', 0.5), ('b', 0.005)]), ('named', [('a', 1e-12), ('b', 0.5)]),
                ('float', 0.0)]


def case_driver(scripts, entry, min_rep):
  """scripts: one answer script per stub test."""
  w = world.load()
  S = w.suite
  scripts = [[(k, [tuple(x) for x in v] if k == 'named' else v) for k, v in sc]
             for sc in scripts]
  stubs = [_Stub(sc) for sc in scripts]
  for i, s in enumerate(stubs):
    s.__name__ = 'Stub%d' % i
  saved = S.TESTS
  S.TESTS = [(s, []) for s in stubs]
  calls = {'n': 0}

  def source(n):
    calls['n'] += 1
    if calls['n'] > 50:
      raise RuntimeError('horizon')
    return 0

  try:
    if entry == 'TestSource':
      st, ret = guarded(S.TestSource, source, 8, 0.01, 1e-9, None, None, 0, min_rep)
    else:
      st, ret = guarded(S.TestBitString, 0, 8, 1e-9, None, None, 0)
  finally:
    S.TESTS = saved
  if st == 'exc':
    return ['%s with scripted tests %r raised %s' % (entry, scripts, ret)]
  out = []
  # reference: run the models round by round
  if entry == 'TestSource':
    models = [Model(1e-9, 0.01, min_rep) for _ in stubs]
    idx = [0] * len(stubs)
    rounds = 0
    while True:
      rounds += 1
      for i, m in enumerate(models):
        if m.finished:
          continue
        ans = scripts[i][idx[i]] if idx[i] < len(scripts[i]) else ('float', 0.5)
        idx[i] += 1
        m.run(ans)
      if all(m.finished for m in models) or rounds > 40:
        break
    exp = any(s == 'FAILED' for m in models for s in m.state.values())
    if bool(ret) != exp:
      out.append('TestSource returned %r; some sub-test failed: %r (scripts %r)' %
                 (ret, exp, scripts))
    if calls['n'] != rounds:
      out.append('TestSource drew %d samples; %d rounds had an unfinished test (scripts %r)' %
                 (calls['n'], rounds, scripts))
    for i, s in enumerate(stubs):
      if s.calls != idx[i]:
        out.append('test %d was run %d times; it was unfinished in %d rounds (scripts %r)' %
                   (i, s.calls, idx[i], scripts))
  else:
    models = [Model(1e-9, 1e-9, 1) for _ in stubs]
    for i, m in enumerate(models):
      m.run(scripts[i][0] if scripts[i] else ('float', 0.5))
    exp = any(s == 'FAILED' for m in models for s in m.state.values())
    if bool(ret) != exp:
      out.append('TestBitString returned %r; some sub-test failed: %r (scripts %r)' %
                 (ret, exp, scripts))
    for i, s in enumerate(stubs):
      if s.calls != 1:
        out.append('TestBitString ran test %d %d times' % (i, s.calls))
  return out


def drivers(nstubs, maxlen, part, nparts):
  r = Result()
  scripts1 = [[]]
  for ln in range(1, maxlen + 1):
    scripts1 += [list(t) for t in itertools.product(DRIVER_ALPHA, repeat=ln)]
  idx = 0
  for combo in itertools.product(scripts1, repeat=nstubs):
    idx += 1
    if idx % nparts != part:
      continue
    for entry, mr in (('TestSource', 1), ('TestSource', 2), ('TestBitString', 1)):
      if entry == 'TestBitString' and any(len(s) > 1 for s in combo):
        continue
      bad = case_driver(list(combo), entry, mr)
      r.ev('driver/%s' % entry, True)
      r.transitions += 1
      for b in bad[:1]:
        r.violation(b, {'fn': 'driver', 'args': {
            'scripts': [[[k, [list(x) for x in v] if k == 'named' else v] for k, v in sc]
                        for sc in combo], 'entry': entry, 'min_rep': mr}})
  r.states += 1
  r.sample({'entry_points': 'TestSource (min_rep 1,2) / TestBitString', 'stub_tests': nstubs,
            'script_length<=': maxlen, 'answer_alphabet': len(DRIVER_ALPHA)})
  return r


# ---- generators --------------------------------------------------------------------------

WEAK_BIAS = ['trunclcg16', 'trunclcg20', 'trunclcg28', 'trunclcg32', 'trunclcg64',
             'trunclcg128', 'lehmer128', 'lehmer128/16', 'java', 'mwc64', 'mwc128', 'mwc256']
# (generator, test prefix, minimal size at which the documentation's table applies)
WEAK_LINEAR = [('xorshift128+', 'LargeBinaryMatrixRank', 16), ('xorwow', 'LargeBinaryMatrixRank', 18),
               ('xorshift*', 'LargeBinaryMatrixRank', 22),
               ('xorshift128+', 'LinearComplexityScatter', 20),
               ('xorwow', 'LinearComplexityScatter', 20),
               ('xorshift*', 'LinearComplexityScatter', 20)]


def case_weak(gen, prefix, logn, seed):
  w = world.load()
  g = w.rng.GetRng(gen)
  st = {'s': seed}

  def source(n):
    st['s'] += 1
    return g.RandomBits(n, seed=st['s'] * 7919 + 1)

  s, ret = guarded(w.suite.TestSource, source, 1 << logn, 0.01, 1e-9, None, prefix, 0)
  if s == 'exc':
    return ['TestSource(%s, n=2^%d, prefix=%s) raised %s' % (gen, logn, prefix, ret)]
  if ret is not True:
    return ['TestSource on %s output (n=2^%d, seed window %d, tests %s*) returned %r; the '
            'documentation names this test as detecting the generator' %
            (gen, logn, seed, prefix, ret)]
  bits = g.RandomBits(1 << logn, seed=seed * 7919 + 2)
  s, ret = guarded(w.suite.TestBitString, bits, 1 << logn, 1e-9, None, prefix, 0)
  if s == 'exc' or ret is not True:
    return ['TestBitString on %s output (n=2^%d, seed %d, tests %s*) returned %r; the '
            'documentation names this test as detecting the generator' %
            (gen, logn, seed * 7919 + 2, prefix, ret)]
  return []


def weak(gen, prefix, logn, seeds):
  r = Result()
  for sd in seeds:
    bad = case_weak(gen, prefix, logn, sd)
    r.ev('weak/%s' % prefix, True)
    r.transitions += 1
    for b in bad:
      r.violation(b, {'fn': 'weak', 'args': {'gen': gen, 'prefix': prefix, 'logn': logn,
                                             'seed': sd}})
  r.states += 1
  r.sample({'weak_generator': gen, 'tests': prefix, 'n': '2^%d' % logn, 'seeds': seeds})
  return r


def case_good(gen, logn, seed):
  w = world.load()
  g = w.rng.GetRng(gen)
  n = 1 << logn
  bits = g.RandomBits(n, seed=seed)
  out = []
  s, ret = guarded(w.suite.TestBitString, bits, n, 1e-9, None, None, 0)
  if s == 'exc' or ret is not False:
    out.append('TestBitString on %s output (seed %d, n=2^%d) returned %r' % (gen, seed, logn,
                                                                             ret))
  st = {'s': seed}

  def source(k):
    st['s'] += 1
    return g.RandomBits(k, seed=seed if st['s'] == seed + 1 else st['s'] * 104729 + 3)

  s, ret = guarded(w.suite.TestSource, source, n, 0.01, 1e-9, None, None, 0)
  if s == 'exc' or ret is not False:
    out.append('TestSource on %s output (seed %d, n=2^%d) returned %r' % (gen, seed, logn, ret))
  return out


def good(gen, logn, seed):
  """Also records per-name counts of p <= 0.01 (merged in post)."""
  w = world.load()
  r = Result()
  bad = case_good(gen, logn, seed)
  r.ev('good/%s' % gen, True)
  r.transitions += 2
  r.states += 1
  for b in bad:
    r.violation(b, {'fn': 'good', 'args': {'gen': gen, 'logn': logn, 'seed': seed}})
  # p-values of every test, for the uniformity count
  g = w.rng.GetRng(gen)
  n = 1 << logn
  bits = g.RandomBits(n, seed=seed)
  for test, params in w.suite.TESTS:
    if test.__name__ == 'FindBias':
      continue  # 30 s per call; its p-values are covered by the entry points above
    try:
      res = test(bits, n, *params)
    except w.nist.InsufficientDataError:
      continue
    if isinstance(res, (int, float)):
      res = [('result', res)]
    for nm, p in res:
      key = '%s%s/%s' % (test.__name__, params or '', nm)
      r.extra['_cnt:' + key] = r.extra.get('_cnt:' + key, 0) + 1
      if float(p) <= 0.01:
        r.extra['_low:' + key] = r.extra.get('_low:' + key, 0) + 1
      if not (0 <= float(p) <= 1):
        r.violation('%s on %s output returned p=%r' % (key, gen, p),
                    {'fn': 'good', 'args': {'gen': gen, 'logn': logn, 'seed': seed}})
  r.sample({'good_generator': gen, 'seed': seed, 'n': '2^%d' % logn})
  return r


def post(extra, r, tier, seed):
  worst = None
  for k in [k for k in extra if k.startswith('_cnt:')]:
    name = k[5:]
    K = extra[k]
    low = extra.get('_low:' + name, 0)
    # smallest count c with P(Binomial(K, 0.01) >= c) <= 1e-12
    c = 0
    while True:
      tail = sum(math.comb(K, i) * 0.01**i * 0.99**(K - i) for i in range(c, K + 1))
      if tail <= 1e-12:
        break
      c += 1
      if c > K:
        break
    r.ev('uniformity', True)
    if c <= K and low >= c:
      r.violation('%d of %d p-values of %s on good-generator output are <= 0.01 (binomial '
                  '1e-12 bound: %d)' % (low, K, name, c),
                  {'fn': 'good', 'args': {'gen': 'shake128', 'logn': 20, 'seed': seed}},
                  key={'uniformity': name})
    if worst is None or low / K > worst[0]:
      worst = (low / K, name, low, K)
  if worst:
    extra['largest_low_fraction'] = '%s: %d/%d' % worst[1:]


CASES = {'machine': case_machine, 'driver': case_driver, 'weak': case_weak, 'good': case_good}


def plan(tier, seed):
  thorough = tier == 'thorough'
  T = []
  depth = 3
  for fail, rep in CONFIGS:
    for mr in (1, 2, 3):
      for first in range(8):
        T.append(Task('decision-machine', 'machine',
                      {'fail': fail, 'rep': rep, 'min_rep': mr, 'depth': depth,
                       'small': not thorough, 'first': first},
                      bound='every answer sequence to depth %d over the %s alphabet x 18 '
                      'configurations' % (depth, 'full' if thorough else 'reduced'),
                      weight=3e6 if not thorough else 5e7))
  if thorough:
    for fail, rep in CONFIGS[:3]:
      for first in range(8):
        T.append(Task('decision-machine-depth4', 'machine',
                      {'fail': fail, 'rep': rep, 'min_rep': 2, 'depth': 4, 'small': True,
                       'first': first}, bound='depth 4, reduced alphabet, 3 configurations',
                      weight=6e7))
  T.append(Task('entry-points', 'drivers', {'nstubs': 1, 'maxlen': 3, 'part': 0, 'nparts': 1},
                bound='1 stub test x scripts <= 3', weight=1e6))
  for part in range(8):
    T.append(Task('entry-points', 'drivers', {'nstubs': 2, 'maxlen': 2, 'part': part,
                                              'nparts': 8},
                  bound='1 stub x scripts<=3; 2 stubs x scripts<=2; answer alphabet of 7',
                  weight=2e6))
  seeds = [seed * 1000 + i + 1 for i in range(4 if thorough else 1)]
  for gen in WEAK_BIAS:
    for logn in ((16, 18, 20) if thorough else (16,)):
      T.append(Task('weak-generators', 'weak', {'gen': gen, 'prefix': 'FindBias', 'logn': logn,
                                                'seeds': seeds}, complete=False,
                    bound='12 LCG-type generators x n in %s x %d seed windows: FindBias fails; '
                    'xorshift family: rank / scatter fail at the documented sizes' %
                    ('{2^16,2^18,2^20}' if thorough else '{2^16}', len(seeds)),
                    weight=2e8 * 4**((logn - 16) / 2)))
  for gen, prefix, logn in WEAK_LINEAR:
    for ln in ((logn, logn + 2) if thorough else (logn,)):
      T.append(Task('weak-generators', 'weak', {'gen': gen, 'prefix': prefix, 'logn': ln,
                                                'seeds': seeds}, complete=False, bound='',
                    weight=1e8 * 2**(ln - 16)))
  K = 16 if thorough else 1
  for gen in ('shake128', 'pcg64', 'philox'):
    for i in range(K):
      T.append(Task('good-generators', 'good', {'gen': gen, 'logn': 20,
                                                'seed': seed * 100000 + 17 + i},
                    complete=False,
                    bound='3 good generators x %d seeds x n=2^20: both entry points return False; '
                    'per-name count of p<=0.01 within the binomial 1e-12 bound' % K,
                    weight=5e9))
  return T
