"""C11 -- elliptic-curve arithmetic is the group law on every input."""
import itertools
import math

from pmc import world
from pmc.core import Result, Task, guarded
from pmc.refs import ec as rec

ID = 'C11'
LEVEL = 'model_checking'
LEVEL_TEXT = ('Explicit-state exploration of the whole group of tiny prime-order curves '
              '(three shapes: a=-3, a=0, generic a): states = all points incl. infinity, '
              'transitions = every application of every public EcCurve operation (all '
              'pairs, all Jacobian representatives, all scalars in [-2n,2n], all lists '
              'of length <=3 for the batched variants), each compared with a schoolbook '
              'chord-and-tangent reference; plus parameter validation and an edge '
              'alphabet on the 9 named curves.')
TECHNIQUE = ('explicit-state enumeration of the complete group (states = points, '
             'transitions = operation applications) on the real code vs. schoolbook '
             'reference')
RULE = ('per tiny curve: every operand tuple of every operation; distinct by '
        'construction; non-trivial = the operands hit a special case (infinity, equal, '
        'opposite, zero/negative/over-order scalar) or a generic one -- both counted, '
        'outcome classes separate them')
ASSUMPTIONS = ['proto/pybind shims of pmc.world',
               'schoolbook reference pmc/refs/ec.py (affine law over pow(x,-1,p))',
               'tiny curves found by brute-force point counting, prime order n > 3 '
               '(no 2-torsion: Double on a point with y=0 is outside the claim)']


def _curves(seed, thorough):
  """(spec, depth) list. depth 3: triples; 2: pairs only."""
  off = seed % 3
  out = []
  for shape in ('a-3', 'a0', 'generic'):
    for c in rec.tiny_curves(5, 40, shape, 1, 2 if not thorough else 4, off):
      out.append((c, 3 if c.n <= 37 else 2))
    for c in rec.tiny_curves(97 if not thorough else 150, 260, shape, 1,
                             1 if not thorough else 2, off):
      out.append((c, 2))
  return out


def _spec(c):
  return {'p': c.p, 'a': c.a_literal, 'b': c.b, 'gx': c.g[0], 'gy': c.g[1], 'n': c.n}


def _from_spec(s):
  c = rec.Curve(s['p'], s['a'], s['b'], (s['gx'], s['gy']), s['n'], 1,
                'tiny-p%d-a%d-b%d' % (s['p'], s['a'], s['b']))
  c.a_literal = s['a']
  return c


def _jac(c, P, z):
  if P is None:
    return (z * z % c.p, z * z * z % c.p, 0)
  return (P[0] * z * z % c.p, P[1] * z * z * z % c.p, z % c.p)


def _unjac(c, J):
  x, y, z = (int(v) for v in J)
  if z % c.p == 0:
    return None
  zi = pow(z, -1, c.p)
  return (x * zi * zi % c.p, y * zi * zi * zi % c.p)


def _norm(c, P):
  """library affine point -> reference point with reduced coordinates."""
  P = rec.rp(P)
  if P is None:
    return None
  return (P[0] % c.p, P[1] % c.p)


class Ops:
  """Applies one library operation and the reference; returns (got, exp)."""

  def __init__(self, c):
    w = world.load()
    self.c = c
    self.L = rec.to_lib(c, w.ec_util)

  def run(self, op, args):
    c, L = self.c, self.L
    lp, nm = rec.lp, lambda P: _norm(c, P)
    if op == 'Add':
      P, Q = args
      return nm(L.Add(lp(P), lp(Q))), c.add(P, Q)
    if op == 'Subtract':
      P, Q = args
      return nm(L.Subtract(lp(P), lp(Q))), c.add(P, c.neg(Q))
    if op == 'Negate':
      return nm(L.Negate(lp(args[0]))), c.neg(args[0])
    if op == 'Double':
      return nm(L.Double(lp(args[0]))), c.add(args[0], args[0])
    if op == 'OnCurve':
      return bool(L.OnCurve(lp(args[0]))), c.on_curve(args[0])
    if op == 'AddJacobian':
      P, Q, z1, z2 = args
      return _unjac(c, L.AddJacobian(_jac(c, P, z1), _jac(c, Q, z2))), c.add(P, Q)
    if op == 'DoubleJacobian':
      P, z = args
      return _unjac(c, L.DoubleJacobian(_jac(c, P, z))), c.add(P, P)
    if op == 'JacobianToAffine':
      P, z = args
      return nm(L.JacobianToAffine(_jac(c, P, z))), P
    if op == 'AffineToJacobian':
      return _unjac(c, L.AffineToJacobian(lp(args[0]))), args[0]
    if op == 'Multiply':
      P, k = args
      return nm(L.Multiply(lp(P), k)), c.mul(P, k)
    if op == 'MultiplyAffine':
      P, k = args
      return nm(L.MultiplyAffine(lp(P), k)), c.mul(P, k)
    if op == 'BatchAddList':
      ps, qs = args
      return ([nm(x) for x in L.BatchAddList([lp(p) for p in ps], [lp(q) for q in qs])],
              [c.add(p, q) for p, q in zip(ps, qs)])
    if op == 'BatchAdd':
      P, qs = args
      return ([nm(x) for x in L.BatchAdd(lp(P), [lp(q) for q in qs])],
              [c.add(P, q) for q in qs])
    if op == 'BatchAddX':
      P, qs = args
      got = L.BatchAddX(lp(P), [lp(q) for q in qs])
      exp = [c.add(P, q) for q in qs]
      return ([None if x is None else int(x) % c.p for x in got],
              [None if e is None else e[0] for e in exp])
    if op == 'BatchAddSubtractX':
      P, qs = args
      s, d = L.BatchAddSubtractX(lp(P), [lp(q) for q in qs])
      es = [c.add(P, q) for q in qs]
      ed = [c.add(P, c.neg(q)) for q in qs]
      f = lambda xs: [None if x is None else int(x) % c.p for x in xs]
      g = lambda es_: [None if e is None else e[0] for e in es_]
      return (f(s), f(d)), (g(es), g(ed))
    if op == 'BatchDouble':
      return ([nm(x) for x in L.BatchDouble([lp(p) for p in args[0]])],
              [c.add(p, p) for p in args[0]])
    if op == 'BatchJacobianToAffine':
      ps, zs = args
      return ([nm(x) for x in L.BatchJacobianToAffine(
          [_jac(c, p, z) for p, z in zip(ps, zs)])], list(ps))
    if op == 'BatchJacobianToX':
      ps, zs = args
      got = L.BatchJacobianToX([_jac(c, p, z) for p, z in zip(ps, zs)])
      return ([None if x is None else int(x) % c.p for x in got],
              [None if p is None else p[0] for p in ps])
    if op == 'BatchInverse':
      vals = args[0]
      got = L.BatchInverse(list(vals))
      exp = [None if not v else pow(v, -1, c.p) for v in vals]
      return [None if g is None else int(g) % c.p for g in got], exp
    if op == 'BatchMultiplyG':
      ks = args[0]
      return ([nm(x) for x in L.BatchMultiplyG(list(ks))], [c.mul(c.g, k) for k in ks])
    if op == 'PointSequence':
      P, n = args
      return ([nm(x) for x in L.PointSequence(lp(P), n)], [c.mul(P, i) for i in range(n)])
    if op == 'PointTable':
      P, n = args
      tab = L.PointTable(lp(P), n)
      bad = []
      for x, i in tab.items():
        e = c.mul(P, i)
        if (None if e is None else e[0]) != (None if x is None else int(x) % c.p):
          bad.append(('entry', x, i))
      keys = {None if x is None else int(x) % c.p for x in tab}
      for i in range(n):
        e = c.mul(P, i)
        if (None if e is None else e[0]) not in keys:
          bad.append(('missing', i))
      return bad, []
    raise ValueError(op)


def case_op(curve, op, args):
  c = _from_spec(curve)
  args = _dejson(args)
  st, res = guarded(Ops(c).run, op, args)
  if st == 'exc':
    return ['%s%r on %s raised %s' % (op, args, c.name, res)]
  got, exp = res
  if got != exp:
    return ['%s%r on %s (p=%d, a=%d, b=%d, n=%d) = %r, group law gives %r' %
            (op, args, c.name, c.p, c.a_literal, c.b, c.n, got, exp)]
  return []


def _dejson(x):
  if isinstance(x, list):
    # points are [x, y]; lists of points / scalars are lists
    return tuple(_dejson(v) for v in x)
  return x


def _enjson(x):
  if isinstance(x, tuple):
    return [_enjson(v) for v in x]
  if isinstance(x, list):
    return [_enjson(v) for v in x]
  return x


def group(curve, depth, part, nparts):
  c = _from_spec(curve)
  ops = Ops(c)
  r = Result()
  pts = [None] + c.points()
  assert len(pts) == c.n, 'curve order mismatch'
  n = c.n
  zs = (1, 2, c.p - 1)
  idx = [0]

  def mine():
    idx[0] += 1
    return idx[0] % nparts == part

  def chk(op, args, cls):
    st, res = guarded(ops.run, op, args)
    r.ev('%s/%s' % (op, cls))
    r.transitions += 1
    if st == 'exc':
      r.violation('%s%r on %s raised %s' % (op, args, c.name, res),
                  {'fn': 'op', 'args': {'curve': curve, 'op': op, 'args': _enjson(args)}})
    elif res[0] != res[1]:
      r.violation('%s%r on %s (p=%d,a=%d,b=%d,n=%d) = %r, group law gives %r' %
                  (op, args, c.name, c.p, c.a_literal, c.b, n, res[0], res[1]),
                  {'fn': 'op', 'args': {'curve': curve, 'op': op, 'args': _enjson(args)}})

  def pcls(P, Q):
    if P is None or Q is None:
      return 'inf'
    if P == Q:
      return 'equal'
    if P == c.neg(Q):
      return 'opposite'
    return 'generic'

  # unary
  if part == 0:
    r.states += len(pts)
    for P in pts:
      cls = 'inf' if P is None else 'generic'
      for op in ('Negate', 'Double', 'OnCurve', 'AffineToJacobian'):
        chk(op, (P,), cls)
      for z in zs:
        chk('DoubleJacobian', (P, z), cls)
        chk('JacobianToAffine', (P, z), cls)
  # binary
  for P in pts:
    if not mine():
      continue
    for Q in pts:
      cls = pcls(P, Q)
      chk('Add', (P, Q), cls)
      chk('Subtract', (P, Q), cls)
      for z1 in zs:
        for z2 in zs:
          chk('AddJacobian', (P, Q, z1, z2), cls)
    for k in range(-2 * n, 2 * n + 1):
      cls = 'inf' if P is None else ('k0' if k % n == 0 else ('neg' if k < 0 else (
          'over' if k > n else 'generic')))
      chk('Multiply', (P, k), cls)
      chk('MultiplyAffine', (P, k), cls)
    if P is not None:
      for m in (list(range(1, min(2 * n, 64) + 1)) if mine() or True else []):
        chk('PointSequence', (P, m), 'n<=order' if m <= n else 'wrap')
        chk('PointTable', (P, m), 'n<=order' if m <= n else 'wrap')
  # batched: lists
  maxlen = depth
  for ln in range(0, maxlen + 1):
    for ps in itertools.product(pts, repeat=ln):
      if not mine():
        continue
      special = sum(p is None for p in ps)
      cls = 'len%d/%dinf' % (ln, special)
      chk('BatchDouble', (ps,), cls)
      zz = tuple(zs[(i + ln) % 3] for i in range(ln))
      chk('BatchJacobianToAffine', (ps, zz), cls)
      chk('BatchJacobianToX', (ps, zz), cls)
      if ln <= 2:
        for P in pts:
          dup = sum(P is not None and q is not None and q[0] == P[0] for q in ps)
          cl2 = cls + '/%dsamex' % dup
          chk('BatchAdd', (P, ps), cl2)
          chk('BatchAddX', (P, ps), cl2)
          chk('BatchAddSubtractX', (P, ps), cl2)
      if ln <= 2:
        if ln < 2 or n <= 60:
          q_lists = itertools.product(pts, repeat=ln)
        else:
          # large group: for each p the partners that can hit a special case
          # (p, -p, infinity) plus three generic ones, in every combination
          q_lists = itertools.product(*[
              (p, c.neg(p), None, c.add(p, c.g), c.g, c.mul(c.g, 5)) if p is not None
              else (None, c.g, c.neg(c.g), c.mul(c.g, 2), c.mul(c.g, 3), c.mul(c.g, 5))
              for p in ps])
        for qs in q_lists:
          sp = sum(pcls(p, q) != 'generic' for p, q in zip(ps, qs))
          chk('BatchAddList', (ps, qs), 'len%d/%dspecial' % (ln, sp))
  if depth >= 3 and c.n <= 37:
    # triples for the two-list operation on a diagonal family: every special-case
    # mixture at every position
    for ps in itertools.product(pts, repeat=3):
      if not mine():
        continue
      for shift in ((0, 0, 0), (1, 0, 0), (0, 1, 0), (0, 0, 1), (1, 1, 0), (1, 1, 1)):
        qs = tuple(
            (p if s == 0 else c.neg(p)) if p is not None else c.g
            for p, s in zip(ps, shift))
        qs2 = tuple(c.add(q, c.g) if s else q for q, s in zip(qs, (shift[2], shift[0],
                                                                   shift[1])))
        for q_list in (qs, qs2):
          sp = sum(pcls(p, q) != 'generic' for p, q in zip(ps, q_list))
          chk('BatchAddList', (ps, q_list), 'len3/%dspecial' % sp)
  # BatchInverse
  if c.p <= 31 and part == 0:
    alpha = [None] + list(range(c.p))
    for ln in range(0, 4):
      for vals in itertools.product(alpha, repeat=ln):
        if any(v for v in vals) or ln == 0 or True:
          zeros = sum(1 for v in vals if not v)
          chk('BatchInverse', (vals,), 'len%d/%dzero' % (ln, zeros))
  # BatchMultiplyG
  ks = list(range(-n, 2 * n + 1))
  for k in ks:
    if not mine():
      continue
    chk('BatchMultiplyG', ((k,),), 'len1')
    for k2 in ks:
      chk('BatchMultiplyG', ((k, k2),), 'len2')
  if part == 0:
    chk('BatchMultiplyG', ((),), 'len0')
  r.sample({'curve': curve, 'group_order': c.n, 'list_depth': depth})
  r.evaluations  # pylint: disable=pointless-statement
  return r


# ---- named curves ---------------------------------------------------------

def case_named(curve_id, what, k=None, point=None):
  w = world.load()
  L = w.ec_util.CURVE_FACTORY[curve_id]
  p, a, b, n = int(L.mod), int(L.a), int(L.b), int(L.n)
  g = (int(L.g[0]), int(L.g[1]))
  c = rec.Curve(p, a, b, g, n, L.h, L.name)
  out = []
  if what == 'params':
    from pmc.refs import nt
    if not nt.is_prime(p):
      out.append('%s: field modulus is not prime' % L.name)
    if (4 * a**3 + 27 * b * b) % p == 0:
      out.append('%s: singular curve' % L.name)
    if not c.on_curve(g):
      out.append('%s: generator not on curve' % L.name)
    if not nt.is_prime(n):
      out.append('%s: order is not prime' % L.name)
    if c.mul(g, n) is not None:
      out.append('%s: n*G != infinity' % L.name)
    if (n * L.h - p - 1)**2 > 4 * p:
      out.append('%s: n*h outside the Hasse interval' % L.name)
    return out
  P = {'G': g, '-G': c.neg(g), '2G': c.add(g, g), '(n-1)G': c.neg(g), 'inf': None,
       '3G': c.mul(g, 3)}[point]
  exp = c.mul(P, k)
  for name, fn in (('Multiply', lambda: L.Multiply(rec.lp(P), k)),
                   ('MultiplyAffine', lambda: L.MultiplyAffine(rec.lp(P), k))):
    st, got = guarded(fn)
    if st == 'exc' or _norm(c, got) != exp:
      out.append('%s.%s(%s, %d) = %r, group law gives %r' % (L.name, name, point, k, got,
                                                            exp))
  if point == 'G':
    st, got = guarded(L.BatchMultiplyG, [k, 1, k + 1, 0, -k])
    exp_l = [c.mul(g, x) for x in (k, 1, k + 1, 0, -k)]
    if st == 'exc' or [_norm(c, x) for x in got] != exp_l:
      out.append('%s.BatchMultiplyG([%d, 1, %d, 0, %d]) disagrees with the group law' %
                 (L.name, k, k + 1, -k))
  return out


def _named_scalars(n):
  bits = n.bit_length()
  steps = (bits + 7) // 8
  ks = [0, 1, -1, 2, -2, 3, n - 1, n, n + 1, 2 * n, 2 * n + 1, -n, (n - 1) // 2,
        (n + 1) // 2]
  for j in range(0, bits + 1, steps):
    ks += [2**j - 1, 2**j, 2**j + 1]
  for j in range(steps):
    ks += [sum(1 << (i + j) for i in range(0, bits, steps)) % n]
  ks += [2**bits - 1, 2**(bits - 1)]
  return sorted(set(ks))


def named(curve_id):
  w = world.load()
  r = Result()
  L = w.ec_util.CURVE_FACTORY[curve_id]
  for b in case_named(curve_id, 'params'):
    r.violation(b, {'fn': 'named', 'args': {'curve_id': curve_id, 'what': 'params'}})
  r.ev('named/params')
  r.states += 1
  for point in ('G', '-G', '2G', '3G', 'inf'):
    for k in _named_scalars(int(L.n)):
      bad = case_named(curve_id, 'mul', k, point)
      r.ev('named/mul/%s' % point)
      r.transitions += 3
      for b_ in bad[:1]:
        r.violation(b_, {'fn': 'named', 'args': {'curve_id': curve_id, 'what': 'mul',
                                                 'k': k, 'point': point}})
  r.sample({'named_curve': L.name, 'scalars': len(_named_scalars(int(L.n))),
            'points': ['G', '-G', '2G', '3G', 'inf']})
  return r


CASES = {'op': case_op, 'named': case_named}


def plan(tier, seed):
  thorough = tier == 'thorough'
  tasks = []
  for c, depth in _curves(seed, thorough):
    nparts = 8 if c.n > 60 else 4
    for part in range(nparts):
      tasks.append(Task('tiny-curve-group', 'group',
                        {'curve': _spec(c), 'depth': depth, 'part': part,
                         'nparts': nparts},
                        bound='whole group of each tiny curve: all pairs x 9 Jacobian '
                        'representations, all scalars in [-2n,2n], all lists <=2 (<=3 for '
                        'n<=37; BatchAddList on groups > 60: 6 partners per element), BatchInverse lists <=3 over all residues (p<=31), '
                        'BatchMultiplyG lists <=2 over [-n,2n], PointSequence/PointTable '
                        'n<=min(2*order,64)',
                        weight=c.n**3 if depth == 3 else c.n**2 * 30))
  w = world.load()
  for cid, L in w.ec_util.CURVE_FACTORY.items():
    if L is not None:
      tasks.append(Task('named-curves', 'named', {'curve_id': int(cid)}, complete=False,
                        bound='parameter validation + edge scalars x 5 points',
                        weight=1e5))
  return tasks
