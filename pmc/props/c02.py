"""C02 -- every discrete log or key relation reported for an EC key or signer
is true."""
import itertools

from pmc import art, gen_ec as G, world
from pmc.core import Result, Task, guarded
from pmc.refs import ec as rec
from pmc.refs import nt

ID = 'C02'
LEVEL = 'model_checking'
LEVEL_TEXT = ('Explicit-state exploration of whole tiny groups: every point list of length <= 3 '
              '(2 on larger groups) and every bound / max_diff up to beyond the group order '
              '(wrap-around regime) through BatchDL and BatchDLOfDifferences, every returned '
              'logarithm / relation verified with a schoolbook reference. On the named curves: '
              'batches of structured, random and invalid keys through the EC checks, and '
              'adversarial signature sets (healthy; biased; stated issuer is not the signer; a '
              'second issuer claiming the recovered key; duplicates; leading-zero encodings) '
              'through every ECDSA check; every DISCRETE_LOG / DISCRETE_LOG_DIFF record and every '
              'positive nonce verdict is verified by one scalar multiplication.')
TECHNIQUE = ('explicit enumeration of all point lists over complete tiny groups on the real '
             'discrete-log routines + adversarial batches on named curves; oracle = reference '
             'scalar multiplication (soundness only)')
RULE = ('tiny curves: every (point list, bound); named curves: every listed batch x every check; '
        'distinct by construction; non-trivial = some logarithm / relation / positive verdict was '
        'reported (the oracle was exercised)')
ASSUMPTIONS = ['proto/pybind shims of pmc.world', 'schoolbook reference pmc/refs/ec.py',
               'soundness only: completeness of the searches is C10 / C08']


def _spec(c):
  return {'p': c.p, 'a': c.a_literal, 'b': c.b, 'gx': c.g[0], 'gy': c.g[1], 'n': c.n}


def _from_spec(s):
  c = rec.Curve(s['p'], s['a'], s['b'], (s['gx'], s['gy']), s['n'], 1, 'tiny')
  c.a_literal = s['a']
  return c


def _parse_rel(s):
  lhs, rhs = s.split('=')
  k = int(rhs.split('*')[0])
  px, py = lhs[lhs.index('(') + 1:lhs.index(')')].split(',')
  return (int(px, 16), int(py, 16)), k


def _check_dl(c, L, pts, bound):
  st, res = guarded(L.BatchDL, [rec.lp(P) for P in pts], bound)
  if st == 'exc':
    return None, ['BatchDL(%r, %d) raised %s' % (pts, bound, res)]
  out = []
  if len(res) != len(pts):
    out.append('BatchDL returned %d results for %d points' % (len(res), len(pts)))
  for P, x in zip(pts, res):
    if x is not None and c.mul(c.g, int(x)) != P:
      out.append('BatchDL(%r, bound=%d) reported log %d for %r but %d*G = %r (order %d)' %
                 (pts, bound, x, P, x, c.mul(c.g, int(x)), c.n))
  return res, out


def _check_diff(c, L, pts, others, md):
  st, res = guarded(L.BatchDLOfDifferences, [rec.lp(P) for P in pts],
                    [rec.lp(P) for P in others] if others is not None else None, md)
  if st == 'exc':
    return None, ['BatchDLOfDifferences(%r, %r, %d) raised %s' % (pts, others, md, res)]
  out = []
  for P, s in zip(pts, res):
    if s is None:
      continue
    try:
      Q, k = _parse_rel(s)
    except Exception:  # pylint: disable=broad-except
      out.append('unparsable relation %r' % s)
      continue
    if c.add(P, c.neg(Q)) != c.mul(c.g, k):
      out.append('BatchDLOfDifferences(%r, %r, max_diff=%d) recorded %r for key %r: false' %
                 (pts, others, md, s, P))
    elif Q not in list(pts) + list(others or []):
      out.append('relation %r names a point that is not in the batch' % s)
  return res, out


def case_tiny(curve, kind, pts, others, bound):
  w = world.load()
  c = _from_spec(curve)
  L = rec.to_lib(c, w.ec_util)
  pts = [None if P is None else tuple(P) for P in pts]
  if kind == 'dl':
    return _check_dl(c, L, pts, bound)[1]
  others = None if others is None else [tuple(P) for P in others]
  return _check_diff(c, L, pts, others, bound)[1]


def tiny(curve, maxlen, part, nparts):
  w = world.load()
  c = _from_spec(curve)
  r = Result()
  pts_all = [None] + c.points()
  n = c.n
  bounds = sorted(set(list(range(0, min(n, 12))) + [n // 2, n - 1, n, n + 1, 2 * n, 3 * n + 1]))
  idx = 0
  for ln in range(0, maxlen + 1):
    for pts in itertools.product(pts_all, repeat=ln):
      idx += 1
      if idx % nparts != part:
        continue
      for B in bounds:
        if ln == 0:
          break  # an empty point list reports nothing: outside this property
        L = rec.to_lib(c, w.ec_util)
        res, bad = _check_dl(c, L, list(pts), B)
        found = res is not None and any(x is not None for x in res)
        r.ev('dl/%s' % ('found' if found else 'none'), found)
        r.transitions += 1
        for b in bad[:1]:
          r.violation(b, {'fn': 'tiny', 'args': {'curve': curve, 'kind': 'dl',
                                                 'pts': [None if P is None else list(P) for P in pts],
                                                 'others': None, 'bound': B}})
      if None in pts:
        continue
      for md in bounds:
        for others in (None, [c.g], [c.mul(c.g, 3), c.neg(c.g)]):
          if ln == 0 and others is None:
            continue
          L = rec.to_lib(c, w.ec_util)
          res, bad = _check_diff(c, L, list(pts), others, md)
          found = res is not None and any(x is not None for x in res)
          r.ev('diff/%s' % ('found' if found else 'none'), found)
          r.transitions += 1
          for b in bad[:1]:
            r.violation(b, {'fn': 'tiny', 'args': {
                'curve': curve, 'kind': 'diff', 'pts': [list(P) for P in pts],
                'others': None if others is None else [list(P) for P in others], 'bound': md}})
      if len(r.violations) > 8:
        return r
  r.states += len(pts_all)
  r.sample({'curve': curve, 'group_order': n, 'list_length<=': maxlen, 'bounds': bounds})
  return r


# ---- named curves ------------------------------------------------------------------------

def _verify_ec_keys(cid, keys, label):
  out = []
  c = G.curve(cid)
  pts = [(art.b2i(k.ec_info.x), art.b2i(k.ec_info.y)) for k in keys]
  for k, P in zip(keys, pts):
    dl = art.attached(k.test_info, 'DISCRETE_LOG')
    valid = 0 <= P[0] < c.p and 0 <= P[1] < c.p and c.on_curve(P)
    if dl is not None and valid:
      if G.gmul(cid, int(dl, 16)) != P:
        out.append('%s: DISCRETE_LOG %s recorded for a valid key, but %s*G is another point' %
                   (label, dl[:20], dl[:20]))
      if not k.test_info.weak:
        out.append('%s: DISCRETE_LOG recorded but the key is not marked weak' % label)
    rel = art.attached(k.test_info, 'DISCRETE_LOG_DIFF')
    if rel is not None and valid:
      try:
        Q, kk = _parse_rel(rel)
      except Exception:  # pylint: disable=broad-except
        out.append('%s: unparsable DISCRETE_LOG_DIFF %r' % (label, rel[:60]))
        continue
      Qr = (Q[0] % c.p, Q[1] % c.p)
      if c.on_curve(Qr) and c.add(P, c.neg(Qr)) != G.gmul(cid, kk):
        out.append('%s: recorded relation %r does not hold' % (label, rel[:80]))
      if Q not in pts:
        out.append('%s: relation names a point outside the batch' % label)
  return out


def _ec_batch(cid, names, seed):
  c = G.curve(cid)
  n = c.n
  keys = []
  for nm in names:
    if nm == 'rand':
      d = G.rand_scalar('c02-r-%d-%d' % (cid, seed), n)
    elif nm == 'rand2':
      d = G.rand_scalar('c02-r2-%d-%d' % (cid, seed), n)
    elif nm == 'near':
      d = G.rand_scalar('c02-r-%d-%d' % (cid, seed), n) + 7
    elif nm == 'near-neg':
      d = n - G.rand_scalar('c02-r-%d-%d' % (cid, seed), n) + 5
    elif nm == 'small':
      d = 0x7654321
    elif nm == 'shift':
      d = 0xDEADBEEF << 64
    elif nm == 'rep':
      d = sum(0x1234567 << (32 * i) for i in range(n.bit_length() // 32))
    elif nm == 'one':
      d = 1
    elif nm == 'n-1':
      d = n - 1
    elif nm == 'n-small':
      d = n - 0x1234
    elif nm == 'invalid':
      keys.append(art.ec_key(cid, c.g[0], c.g[1] + 1))
      continue
    elif nm == 'x+p':
      keys.append(art.ec_key(cid, c.g[0] + c.p, c.g[1]))
      continue
    else:
      raise KeyError(nm)
    keys.append(G.key_proto(cid, d))
  return keys


def case_ec(cid, names, check, seed):
  w = world.load()
  keys = _ec_batch(cid, names, seed)
  if check == 'CheckWeakECPrivateKey':
    st, ret = guarded(w.ec_single_checks.CheckWeakECPrivateKey().Check, keys)
  elif check == 'CheckECKeySmallDifference':
    st, ret = guarded(w.ec_aggregate_checks.CheckECKeySmallDifference(4096).Check, keys)
  else:
    st, ret = guarded(w.paranoid.CheckAllEC, keys)
  if st == 'exc':
    return ['%s on %s raised %s' % (check, names, ret)]
  return _verify_ec_keys(cid, keys, '%s on %s batch %s' % (check, G.NAMES[cid], names))


EC_BATCHES = [['small'], ['shift', 'rand'], ['rand', 'rep', 'small'], ['n-1', 'one'],
              ['n-small', 'rand2'], ['rand', 'near'], ['near', 'rand', 'rand2'],
              ['rand', 'near-neg'], ['rand', 'rand'], ['invalid', 'small'], ['x+p', 'one'],
              ['one', 'small', 'near'], ['near-neg', 'n-1', 'rand']]


def ec(cid, seed):
  r = Result()
  for names in EC_BATCHES:
    for check in ('CheckWeakECPrivateKey', 'CheckECKeySmallDifference'):
      bad = case_ec(cid, names, check, seed)
      r.ev('ec/%s' % check, True)
      r.transitions += 1
      for b in bad[:2]:
        r.violation(b, {'fn': 'ec', 'args': {'cid': cid, 'names': names, 'check': check,
                                             'seed': seed}})
  for names in (['small'], ['rep'], ['rand']):
    bad = case_ec(cid, names, 'CheckAllEC', seed)
    r.ev('ec/CheckAllEC', True)
    r.transitions += 1
    for b in bad[:2]:
      r.violation(b, {'fn': 'ec', 'args': {'cid': cid, 'names': names, 'check': 'CheckAllEC',
                                           'seed': seed}})
  r.states += 1
  r.sample({'named_curve': G.NAMES[cid], 'batches': EC_BATCHES[:4]})
  return r


# ---- signatures ------------------------------------------------------------------------------

def _sig_sets(cid, seed):
  """name -> list of signatures (adversarial constructions)."""
  n = G.curve(cid).n
  dA = G.rand_scalar('c02-dA-%d-%d' % (cid, seed), n)
  dB = G.rand_scalar('c02-dB-%d-%d' % (cid, seed), n)
  QA, QB = G.pubkey(cid, dA), G.pubkey(cid, dB)
  bits = n.bit_length()
  sets = {}
  rnd = G.nonces('random', cid, 0, 6, 'c02-h-%d-%d' % (cid, seed))
  sets['healthy'] = G.signatures(cid, dA, rnd, 'h')
  bias = 64
  cnt = 2 * bits // bias + 4
  for kind in ('msb', 'prefix', 'postfix', 'generalized'):
    ks = G.nonces(kind, cid, bias, max(cnt, 24 if kind == 'generalized' else 0),
                  'c02-%s-%d-%d' % (kind, cid, seed))
    sets[kind] = G.signatures(cid, dA, ks, kind)
    # the same signatures, but the stated issuer is B (not the signer)
    sets[kind + '/wrong-issuer'] = [G.signature(cid, dA, k, '%s-%d' % (kind, i), issuer=QB)
                                    for i, k in enumerate(ks)]
  ks = G.nonces('msb', cid, bias, cnt, 'c02-mix-%d-%d' % (cid, seed))
  a_sigs = G.signatures(cid, dA, ks, 'mixA')
  # issuer B's healthy signatures claim A's key
  b_claim = [G.signature(cid, dB, k, 'claim-%d' % i, issuer=QA)
             for i, k in enumerate(G.nonces('random', cid, 0, 3, 'c02-cl-%d' % cid))]
  sets['biased+claimant'] = a_sigs[:cnt // 2] + b_claim + a_sigs[cnt // 2:]
  sets['duplicates'] = a_sigs[:6] + a_sigs[:6] + a_sigs[6:]
  lz = []
  for s_ in a_sigs:
    t = type(s_).FromString(s_.SerializeToString())
    t.ecdsa_sig_info.r = b'\x00\x00' + t.ecdsa_sig_info.r
    t.ecdsa_sig_info.s = b'\x00' + t.ecdsa_sig_info.s
    lz.append(t)
  sets['leading-zeros'] = lz
  b_sigs = G.signatures(cid, dB, G.nonces('random', cid, 0, 4, 'c02-b-%d' % cid), 'B')
  sets['two-issuers-interleaved'] = [x for pair in itertools.zip_longest(a_sigs, b_sigs)
                                     for x in pair if x is not None]
  if bits % 32 == 0:
    sets['u2f'] = G.signatures(cid, dA, [G.u2f_nonce(cid, 'c02-u-%d' % i) for i in range(3)], 'u')
    sets['u2f/wrong-issuer'] = [G.signature(cid, dA, G.u2f_nonce(cid, 'c02-u-%d' % i), 'u%d' % i,
                                            issuer=QB) for i in range(3)]
  sets['gmp'] = G.signatures(cid, dA, G.gmp_nonces(64, cid, 10), 'gmp')
  sets['weak-key+healthy-nonce'] = G.signatures(cid, 0x1234567 << 16, rnd[:3], 'wk')
  return sets


def _verify_sigs(cid, sigs, check_names, label):
  out = []
  for i, s in enumerate(sigs):
    Q = (art.b2i(s.issuer_key_info.x), art.b2i(s.issuer_key_info.y))
    dl = art.attached(s.test_info, 'DISCRETE_LOG')
    if dl is not None and G.gmul(cid, int(dl, 16)) != Q:
      out.append('%s: signature %d carries DISCRETE_LOG %s.. but that value times G is not the '
                 'issuer key' % (label, i, dl[:16]))
    for nm, res, _ in art.entries(s.test_info):
      if res and nm in check_names and nm != 'CheckIssuerKey':
        if dl is None:
          out.append('%s: signature %d is marked weak by %s without a recorded private key' %
                     (label, i, nm))
  return out


NONCE_CHECKS = ['CheckLCGNonceGMP', 'CheckNonceMSB', 'CheckNonceCommonPrefix',
                'CheckNonceCommonPostfix', 'CheckNonceGeneralized', 'CheckCr50U2f',
                'CheckLCGNonceJavaUtilRandom']


def case_sigs(cid, setname, check, seed):
  w = world.load()
  sigs = _sig_sets(cid, seed)[setname]
  sigs = [type(s).FromString(s.SerializeToString()) for s in sigs]
  if check == 'CheckAllECDSASigs':
    st, ret = guarded(w.paranoid.CheckAllECDSASigs, sigs)
  else:
    st, ret = guarded(getattr(w.ecdsa_sig_checks, check)().Check, sigs)
  if st == 'exc':
    return ['%s on the %s set raised %s' % (check, setname, ret)]
  return _verify_sigs(cid, sigs, NONCE_CHECKS, '%s on %s set %r' % (check, G.NAMES[cid], setname))


def sigs(cid, seed, with_java, entry):
  r = Result()
  sets = _sig_sets(cid, seed)
  checks = [c for c in NONCE_CHECKS if with_java or c != 'CheckLCGNonceJavaUtilRandom']
  for setname in sets:
    for check in checks:
      bad = case_sigs(cid, setname, check, seed)
      r.ev('sig/%s' % check, True)
      r.transitions += 1
      for b in bad[:2]:
        r.violation(b, {'fn': 'sigs', 'args': {'cid': cid, 'setname': setname, 'check': check,
                                               'seed': seed}})
  if entry:
    for setname in ('msb/wrong-issuer', 'weak-key+healthy-nonce'):
      bad = case_sigs(cid, setname, 'CheckAllECDSASigs', seed)
      r.ev('sig/CheckAllECDSASigs', True)
      r.transitions += 1
      for b in bad[:2]:
        r.violation(b, {'fn': 'sigs', 'args': {'cid': cid, 'setname': setname,
                                               'check': 'CheckAllECDSASigs', 'seed': seed}})
  r.states += 1
  r.sample({'named_curve': G.NAMES[cid], 'signature_sets': sorted(sets), 'checks': checks})
  return r


# ---- the guess-verification seam (_IssuerDLogs) ------------------------------------------------

def case_issuer_dlogs(curve, length, pos):
  """`length` distinct private-key guesses, the true keys of two issuers at positions `pos`
  and (7*pos+3) mod length: every recorded value must be the key of the issuer of that
  signature index, and every index of a correctly guessed issuer must be recorded."""
  w = world.load()
  c = _from_spec(curve)
  L = rec.to_lib(c, w.ec_util)
  base = 1 + (pos * 31) % 1000
  guesses = [base + j for j in range(length)]
  d1 = guesses[pos]
  pos2 = (7 * pos + 3) % length
  d2 = guesses[pos2]
  absent = base + length + 5
  pks = {rec.lp(c.mul(c.g, d1)): [0, 2, 5]}
  if pos2 != pos:
    pks[rec.lp(c.mul(c.g, d2))] = [1, 4]
  pks[rec.lp(c.mul(c.g, absent))] = [3]
  st, got = guarded(w.ecdsa_sig_checks._IssuerDLogs, list(guesses), pks, L)  # pylint: disable=protected-access
  if st == 'exc':
    return ['_IssuerDLogs(%d guesses) raised %s' % (length, got)]
  exp = {0: d1, 2: d1, 5: d1}
  if pos2 != pos:
    exp.update({1: d2, 4: d2})
  if got != exp:
    wrong = sorted((i, v) for i, v in got.items() if exp.get(i) != v)
    return ['_IssuerDLogs with %d guesses, true keys at positions %d and %d: recorded %s, but '
            'only %s are true (value*G == issuer key)' %
            (length, pos, pos2, dict(wrong[:3]) or got, exp)]
  return []


def issuer_dlogs(curve, lengths):
  r = Result()
  for ln in lengths:
    for pos in range(ln):
      bad = case_issuer_dlogs(curve, ln, pos)
      r.ev('issuer-dlogs/%s' % ('<=512' if ln <= 512 else '>512'), True)
      r.transitions += 1
      for b in bad[:1]:
        r.violation(b, {'fn': 'issuer_dlogs', 'args': {'curve': curve, 'length': ln, 'pos': pos}})
      if len(r.violations) > 5:
        return r
  r.states += len(lengths)
  r.sample({'guess_list_lengths': lengths[:6] + (['...'] if len(lengths) > 6 else []),
            'true_key_position': 'every position'})
  return r


def _many_issuer_batch(seed, per_issuer=20):
  """9 issuers on secp256r1 x 20 signatures, interleaved: three use GMP's LCG (64/128/200-bit
  state), six use random nonces - enough signature sets for > 512 private-key guesses in one
  call of the GMP check."""
  cid = 2
  n = G.curve(cid).n
  per = []
  for j, m2 in enumerate((64, 128, 200)):
    d = G.rand_scalar('c02-mi-g%d-%d' % (j, seed), n)
    per.append(G.signatures(cid, d, G.gmp_nonces(m2, cid, per_issuer, skip=3 * j + seed % 5),
                            'mi-g%d' % j))
  for j in range(6):
    d = G.rand_scalar('c02-mi-r%d-%d' % (j, seed), n)
    per.append(G.signatures(cid, d, G.nonces('random', cid, 0, per_issuer,
                                             'c02-mi-rk%d-%d' % (j, seed)), 'mi-r%d' % j))
  order = [3, 0, 4, 5, 1, 6, 7, 2, 8]
  return [per[i][k] for k in range(per_issuer) for i in order]


def case_many_issuers(seed):
  w = world.load()
  sigs = _many_issuer_batch(seed)
  st, ret = guarded(w.ecdsa_sig_checks.CheckLCGNonceGMP().Check, sigs)
  if st == 'exc':
    return ['CheckLCGNonceGMP on 9 issuers x 20 signatures raised %s' % ret], 0
  flagged = sum(1 for s in sigs if s.test_info.weak)
  return _verify_sigs(2, sigs, NONCE_CHECKS, 'CheckLCGNonceGMP on 9 issuers x 20 signatures '
                      '(secp256r1, seed %d)' % seed), flagged


def many_issuers(seed):
  r = Result()
  bad, flagged = case_many_issuers(seed)
  r.ev('sig/many-issuers/flagged=%d' % flagged, flagged > 0)
  r.transitions += 1
  for b in bad[:2]:
    r.violation(b, {'fn': 'many_issuers', 'args': {'seed': seed}})
  r.sample({'issuers': 9, 'signatures_per_issuer': 20, 'gmp_lcg_issuers': 3, 'flagged': flagged})
  return r


CASES = {'tiny': case_tiny, 'ec': case_ec, 'sigs': case_sigs, 'issuer_dlogs': case_issuer_dlogs,
         'many_issuers': lambda seed: case_many_issuers(seed)[0]}


def plan(tier, seed):
  thorough = tier == 'thorough'
  T = []
  off = seed % 3
  curves = []
  for shape in ('a-3', 'a0', 'generic'):
    curves += [(c, 3) for c in rec.tiny_curves(5, 12, shape, 1, 1, off)]
    curves += [(c, 2) for c in rec.tiny_curves(17, 60, shape, 1, 2 if thorough else 1, off)]
  if thorough:
    curves += [(c, 2) for c in rec.tiny_curves(97, 200, 'generic', 1, 1, off)]
  for c, ml in curves:
    nparts = 8 if c.n > 30 else 2
    for part in range(nparts):
      T.append(Task('tiny-groups', 'tiny', {'curve': _spec(c), 'maxlen': ml, 'part': part,
                                            'nparts': nparts},
                    bound='every point list of length <= 3 (order <= 13) / <= 2 over the whole '
                    'group x bounds 0..11, n/2, n-1, n, n+1, 2n, 3n+1 (wrap-around) for BatchDL and '
                    'BatchDLOfDifferences (3 history-list variants)',
                    weight=len(c.points())**ml * 400 / nparts))
  big = rec.tiny_curves(65000, 66000, 'generic', 1, 1, off)[0]
  edges = [127, 128, 129, 255, 256, 257, 511, 512, 513, 767, 768, 769, 1023, 1024, 1025]
  if thorough:
    edges += [1535, 1536, 1537, 2047, 2048, 2049, 4095, 4096, 4097]
  groups = [list(range(1, 65))] + [edges[i:i + 3] for i in range(0, len(edges), 3)]
  for lens in groups:
    T.append(Task('guess-verification', 'issuer_dlogs', {'curve': _spec(big), 'lengths': lens},
                  bound='_IssuerDLogs on a 16-bit curve: every guess-list length 1..64 and around '
                  'every multiple of 256 up to 1025 (4097 thorough) x every position of the true '
                  'key (two issuers + one issuer without a correct guess)',
                  weight=sum(lens) * max(lens) * 10))
  T.append(Task('named-signature-sets', 'many_issuers', {'seed': seed}, complete=False,
                bound='', weight=5e9))
  w = world.load()
  ids = [int(cid) for cid, L in w.ec_util.CURVE_FACTORY.items() if L is not None]
  quick_ids = [ids[seed % len(ids)], ids[(seed + 4) % len(ids)], 5]
  for cid in ids:
    if thorough or cid in quick_ids:
      T.append(Task('named-ec-batches', 'ec', {'cid': cid, 'seed': seed}, complete=False,
                    bound='13 key batches (structured / random / near / negated / invalid) x the '
                    'private-key and difference checks; %s curves' %
                    ('9' if thorough else '3 of 9'), weight=3e9))
      if not thorough and cid == 5 and cid != quick_ids[0]:
        continue
      T.append(Task('named-signature-sets', 'sigs',
                    {'cid': cid, 'seed': seed, 'with_java': thorough, 'entry': cid == quick_ids[0]},
                    complete=False,
                    bound='17 adversarial signature sets x 6 (7 thorough) nonce checks (+ the entry '
                    'point on 2 sets)', weight=4e9))
  return T
