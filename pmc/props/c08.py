"""C08 -- ECDSA signatures with biased or predictable nonces reveal the
signing key."""
import math

from pmc import art, gen_ec as G, world
from pmc.core import Result, Task, guarded
from pmc.refs import nt

ID = 'C08'
LEVEL = 'exploration'
LEVEL_TEXT = ('Exhaustive enumeration of the documented detection grid: curve x bias kind (top '
              'bits zero / common prefix / common suffix / secret multiple) x biased bits {16, 32, '
              '64, 128} x signature count {1, 1.5, 2} x the stated margin x hash x layout (single '
              'issuer, second healthy or biased issuer interleaved, two curves, duplicates); the '
              'U2F pattern on every curve whose order length is a multiple of 32; GMP truncated-'
              'LCG nonces for every shipped model x {sliding_window_size, +1, sample_size} '
              'consecutive signatures. Oracle: every signature of the biased issuer is marked by '
              'the corresponding check with the correct private key; other issuers keep the '
              'verdict they have alone. The grid is fixed (seed-independent); grid points at '
              'exactly the margin that fail on the pinned tree are listed as known findings.')
TECHNIQUE = ('exhaustive enumeration of a fixed parameter grid (curve, bias kind, width, count, '
             'layout) on the real checks; oracle = reference signer knows the private key (M1)')
RULE = ('every grid point; distinct by construction; all grid points lie inside the stated '
        'region and are non-trivial; outcome classes record detected / known-finding')
ASSUMPTIONS = ['proto/pybind shims of pmc.world', 'reference signer pmc/gen_ec.py',
               'GMP gmp_randinit_lc_2exp_size re-implemented and validated against the ten '
               'unseeded outputs listed in data/unseeded_rands.py (size 32)',
               'declared sufficient for the LCG models is read as sliding_window_size (the data '
               'file calls min_signatures unstable)',
               'fpylll LLL as installed; private keys and free nonce bits are fixed DRBG values']

CHECK_OF = {'msb': 'CheckNonceMSB', 'prefix': 'CheckNonceCommonPrefix',
            'postfix': 'CheckNonceCommonPostfix', 'generalized': 'CheckNonceGeneralized'}


def margin(cid, kind, bias):
  bits = G.curve(cid).n.bit_length()
  m = math.ceil(2 * bits / bias)
  if kind == 'generalized':
    m = max(m, 24)
  return m


def _biased_sigs(cid, kind, bias, count, hashname, keyidx, tag=''):
  n = G.curve(cid).n
  d = G.rand_scalar('c08-d-%d-%d%s' % (cid, keyidx, tag), n)
  ks = G.nonces(kind, cid, bias, count, 'c08-%s-%d-%d-%d-%d%s' % (kind, cid, bias, count, keyidx,
                                                                tag))
  return d, [G.signature(cid, d, k, 'c08-%s-%d-%d' % (kind, keyidx, i), hashname)
             for i, k in enumerate(ks)]


def _healthy_sigs(cid, count, keyidx, hashname='sha256'):
  n = G.curve(cid).n
  d = G.rand_scalar('c08-dh-%d-%d' % (cid, keyidx), n)
  ks = G.nonces('random', cid, 0, count, 'c08-h-%d-%d' % (cid, keyidx))
  return d, [G.signature(cid, d, k, 'c08-h-%d-%d' % (keyidx, i), hashname)
             for i, k in enumerate(ks)]


def _detected(sig, check, d):
  e = art.entry(sig.test_info, check)
  dl = art.attached(sig.test_info, 'DISCRETE_LOG')
  return bool(e and e[0]) and dl is not None and int(dl, 16) == d


def case_grid(cid, kind, bias, mult, hashname, keyidx, layout):
  w = world.load()
  check = CHECK_OF[kind]
  count = math.ceil(margin(cid, kind, bias) * mult)
  d, sigs = _biased_sigs(cid, kind, bias, count, hashname, keyidx)
  batch = list(sigs)
  others = []
  if layout == 'healthy-interleaved':
    _, hs = _healthy_sigs(cid, max(3, count // 3), keyidx)
    others = hs
    batch = []
    for i, s in enumerate(sigs):
      batch.append(s)
      if i % 3 == 0 and i // 3 < len(hs):
        batch.append(hs[i // 3])
    batch += hs[(len(sigs) + 2) // 3:]
  elif layout == 'two-biased':
    d2, s2 = _biased_sigs(cid, kind, bias, count, hashname, keyidx + 50, tag='b')
    batch = [x for pair in zip(sigs, s2) for x in pair]
  elif layout == 'two-curves':
    cid2 = 6 if cid != 6 else 2
    _, hs = _healthy_sigs(cid2, 5, keyidx)
    others = hs
    batch = hs[:2] + sigs + hs[2:]
  elif layout == 'duplicates':
    batch = sigs + sigs[: max(2, count // 4)]
  elif layout == 'healthy-first':
    _, hs = _healthy_sigs(cid, 30, keyidx)
    others = hs
    batch = hs + sigs
  st, ret = guarded(getattr(w.ecdsa_sig_checks, check)().Check, batch)
  if st == 'exc':
    return ['%s raised %s' % (check, ret)]
  out = []
  miss = sum(1 for s in sigs if not _detected(s, check, d))
  if layout == 'duplicates':
    miss += sum(1 for s in batch[len(sigs):] if not _detected(s, check, d))
  if miss:
    out.append('%s on %s: %d of %d signatures with %d-bit %s bias (%s x margin, %s, key %d, '
               'layout %s) are not marked with the private key' %
               (check, G.NAMES[cid], miss, count, bias, kind, mult, hashname, keyidx, layout))
  if layout == 'two-biased':
    miss2 = sum(1 for s in s2 if not _detected(s, check, d2))
    if miss2:
      out.append('%s on %s: second biased issuer: %d of %d signatures not marked (layout '
                 'two-biased, %d-bit %s bias, %s x margin)' % (check, G.NAMES[cid], miss2,
                                                               len(s2), bias, kind, mult))
  for s in others:
    e = art.entry(s.test_info, check)
    if e is None or e[0] or art.attached(s.test_info, 'DISCRETE_LOG') is not None:
      out.append('%s on %s: a healthy signature of another issuer in the batch got entry %r '
                 '(layout %s)' % (check, G.NAMES[cid], e, layout))
      break
  return out


def grid(cid, kind, bias, mults, hashes, keys, layouts):
  r = Result()
  for mult in mults:
    for hashname in hashes:
      for keyidx in keys:
        for layout in layouts:
          bad = case_grid(cid, kind, bias, mult, hashname, keyidx, layout)
          r.ev('%s/%sx' % (kind, mult), True)
          for b in bad[:1]:
            r.violation(b, {'fn': 'grid', 'args': {'cid': cid, 'kind': kind, 'bias': bias,
                                                   'mult': mult, 'hashname': hashname,
                                                   'keyidx': keyidx, 'layout': layout}},
                        key={'check': CHECK_OF[kind], 'curve': G.NAMES[cid], 'kind': kind,
                             'bits': bias, 'count_x_margin': mult})
  r.sample({'curve': G.NAMES[cid], 'kind': kind, 'bias_bits': bias, 'margin':
            margin(cid, kind, bias), 'multipliers': mults, 'hashes': hashes, 'keys': keys,
            'layouts': layouts})
  return r


# ---- U2F ------------------------------------------------------------------------------------

def case_u2f(cid, pattern, keyidx):
  w = world.load()
  n = G.curve(cid).n
  d = G.rand_scalar('c08-u2f-d-%d-%d' % (cid, keyidx), n)
  ks = []
  for i in range(2):
    k = 0
    for j in range(0, n.bit_length(), 32):
      if pattern == 'random-bytes':
        b = nt.drbg_int('c08-u2f-%d-%d-%d-%d' % (cid, keyidx, i, j), 8) | 1
      elif pattern == 'small-bytes':
        b = 1 + (i + j // 32) % 5
      elif pattern == 'large-bytes':
        b = 0xf0 + (i * 3 + j // 32) % 15
      else:  # mixed
        b = (0x11 * (1 + (i + j // 32) % 14))
      if j + 32 >= n.bit_length():
        b = b % 0x7f + 1
      k |= (b * 0x01010101) << j
    ks.append(k % n)
  sigs = [G.signature(cid, d, k, 'c08-u2f-%d-%d' % (keyidx, i)) for i, k in enumerate(ks)]
  _, hs = _healthy_sigs(cid, 2, keyidx)
  batch = [hs[0]] + sigs + [hs[1]]
  st, ret = guarded(w.ecdsa_sig_checks.CheckCr50U2f().Check, batch)
  if st == 'exc':
    return ['CheckCr50U2f raised %s' % ret]
  out = []
  miss = sum(1 for s in sigs if not _detected(s, 'CheckCr50U2f', d))
  if miss:
    out.append('CheckCr50U2f on %s: %d of 2 signatures whose nonces repeat each byte four times '
               '(%s, key %d) are not marked with the private key' % (G.NAMES[cid], miss, pattern,
                                                                   keyidx))
  for s in hs:
    e = art.entry(s.test_info, 'CheckCr50U2f')
    if e is None or e[0]:
      out.append('CheckCr50U2f marked a healthy signature of another issuer')
      break
  return out


def u2f(cid, keys):
  r = Result()
  for pattern in ('random-bytes', 'small-bytes', 'large-bytes', 'mixed'):
    for keyidx in keys:
      bad = case_u2f(cid, pattern, keyidx)
      r.ev('u2f', True)
      for b in bad[:1]:
        r.violation(b, {'fn': 'u2f', 'args': {'cid': cid, 'pattern': pattern, 'keyidx': keyidx}},
                    key={'check': 'CheckCr50U2f', 'curve': G.NAMES[cid], 'pattern': pattern,
                         'key': keyidx})
  r.sample({'curve': G.NAMES[cid], 'u2f_patterns': 4, 'keys': keys, 'signatures': 2})
  return r


# ---- GMP LCG -----------------------------------------------------------------------------------

def _gmp_models(w):
  out = []
  for c in w.lcg_constants.CONSTANT_FACTORY:
    if c['lcg'] == w.lcg_constants.LcgName.GMP:
      out.append(c)
  return out


def case_gmp(model_idx, which, keyidx, layout):
  w = world.load()
  c = _gmp_models(w)[model_idx]
  cid = int(c['curve'])
  count = {'sliding': c['sliding_window_size'], 'sliding+1': c['sliding_window_size'] + 1,
           'sample': c['sample_size']}[which]
  n = G.curve(cid).n
  d = G.rand_scalar('c08-gmp-d-%d-%d' % (model_idx, keyidx), n)
  ks = G.gmp_nonces(c['lcg_size'], cid, count, seed=1 + 7 * keyidx, skip=3 * keyidx)
  sigs = [G.signature(cid, d, k, 'c08-gmp-%d-%d-%d' % (model_idx, keyidx, i))
          for i, k in enumerate(ks)]
  batch = list(sigs)
  hs = []
  if layout == 'with-healthy-issuer':
    _, hs = _healthy_sigs(cid, 3, keyidx)
    batch = hs[:1] + sigs + hs[1:]
  st, ret = guarded(w.ecdsa_sig_checks.CheckLCGNonceGMP().Check, batch)
  if st == 'exc':
    return ['CheckLCGNonceGMP raised %s' % ret]
  out = []
  miss = sum(1 for s in sigs if not _detected(s, 'CheckLCGNonceGMP', d))
  if miss:
    out.append('CheckLCGNonceGMP on %s: %d of %d consecutive signatures with nonces from GMP\'s '
               '%d-bit LCG (%s = %d signatures, key %d, %s) are not marked with the private key'
               % (G.NAMES[cid], miss, count, c['lcg_size'], which, count, keyidx, layout))
  for s in hs:
    e = art.entry(s.test_info, 'CheckLCGNonceGMP')
    if e is None or e[0]:
      out.append('CheckLCGNonceGMP marked a healthy signature of another issuer')
      break
  return out


def gmp(model_idx, keys):
  w = world.load()
  r = Result()
  c = _gmp_models(w)[model_idx]
  for which in ('sliding', 'sliding+1', 'sample'):
    for keyidx in keys:
      for layout in ('alone', 'with-healthy-issuer'):
        bad = case_gmp(model_idx, which, keyidx, layout)
        r.ev('gmp/%s' % which, True)
        for b in bad[:1]:
          r.violation(b, {'fn': 'gmp', 'args': {'model_idx': model_idx, 'which': which,
                                                'keyidx': keyidx, 'layout': layout}},
                      key={'check': 'CheckLCGNonceGMP', 'curve': G.NAMES[int(c['curve'])],
                           'lcg_size': c['lcg_size'], 'count': which, 'key': keyidx,
                           'layout': layout})
  r.sample({'model': '%s GMP%d_%d' % (G.NAMES[int(c['curve'])], c['lcg_size'],
                                     c['lcg_output_size']),
            'counts': {'sliding_window_size': c['sliding_window_size'],
                       'sample_size': c['sample_size'], 'min_signatures': c['min_signatures']},
            'keys': keys})
  return r


def gmp_binding():
  """The re-implemented GMP generator must reproduce the values the repository lists."""
  w = world.load()
  r = Result()
  g_ = G.GmpLc(64)
  vals = [g_.urandomb(512) for _ in range(10)]
  lst = w.unseeded_rands.size_unseeded_map[512]
  hit = sum(v in lst for v in vals)
  r.ev('gmp-model-binding', True)
  r.extra['gmp_model_outputs_matching_repository_list'] = hit
  if hit != 10:
    raise world.HarnessError('GMP LCG emulation reproduces only %d of the 10 listed outputs' % hit)
  r.sample({'gmp_lc_2exp_size_32': 'first ten 512-bit outputs found in unseeded_rands', 'hits': hit})
  return r


CASES = {'grid': case_grid, 'u2f': case_u2f, 'gmp': case_gmp}


def plan(tier, seed):
  thorough = tier == 'thorough'
  T = []
  curves = [2, 6, 4, 5, 17, 18, 19] if thorough else [2, 4]
  for cid in curves:
    for kind in CHECK_OF:
      for bias in (16, 32, 64, 128):
        heavy = bias == 16
        big = G.curve(cid).n.bit_length() > 400
        layouts = ['single']
        if thorough and not heavy:
          layouts += ['healthy-interleaved', 'two-biased', 'two-curves', 'duplicates',
                      'healthy-first']
        elif thorough:
          layouts += ['healthy-interleaved'] if not big else []
        elif cid == 2 and bias in (32, 64):
          layouts += ['healthy-interleaved', 'two-biased', 'two-curves', 'duplicates',
                      'healthy-first']
        T.append(Task('bias-grid', 'grid',
                      {'cid': cid, 'kind': kind, 'bias': bias, 'mults': [1, 1.5, 2],
                       'hashes': ['sha256', 'sha1', 'sha512'] if (thorough and not heavy) else
                       ['sha256'], 'keys': [0, 1] if (thorough and not (heavy and big)) else [0],
                       'layouts': layouts},
                      bound='%s x 4 bias kinds x bits {16,32,64,128} x count {1,1.5,2} x margin x '
                      'hashes x keys x layouts (single; on secp256r1 / thorough also interleaved '
                      'healthy issuer, two biased issuers, two curves, duplicates, healthy-first)' %
                      ('7 curves' if thorough else 'secp256r1 + secp384r1'),
                      weight=(G.curve(cid).n.bit_length() / bias)**3 * 1e4 * len(layouts)))
  w = world.load()
  for cid in (1, 3, 2, 4, 6, 17, 18, 19):
    T.append(Task('u2f', 'u2f', {'cid': cid, 'keys': [0, 1, 2] if thorough else [0]},
                  bound='every curve with order length = 0 mod 32 x 4 byte patterns', weight=1e6))
  for i, c in enumerate(_gmp_models(w)):
    T.append(Task('gmp-lcg', 'gmp', {'model_idx': i, 'keys': [0, 1, 2] if thorough else [0]},
                  bound='every shipped GMP model x {sliding_window_size, +1, sample_size} '
                  'consecutive signatures x 2 layouts', weight=c['sample_size']**3 * 1e3))
  T.append(Task('gmp-model-binding', 'gmp_binding', {}, bound='10 listed outputs', weight=1))
  return T
