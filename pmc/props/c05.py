"""C05 -- RSA keys with patterned, sparse or smooth primes are always flagged."""
from pmc import art, gen_rsa as g, world
from pmc.core import Result, Task, guarded
from pmc.refs import nt

ID = 'C05'
LEVEL = 'exploration'
LEVEL_TEXT = ('Exhaustive enumeration of the documented parameter grid of each pattern family: '
              'modulus size x every default word size w <= size/16 x low-order deviation {0, 8, '
              '16, 32} bits x words (bit patterns); limb size x every odd pattern size with '
              'denominator <= size/10 (permuted patterns); both primes patterned (continued '
              'fractions); both primes of Hamming weight 8..32; p-1 and q-1 sharing a smooth '
              'factor with one / both smooth (Pollard p-1); user-supplied pattern-size lists. '
              'Every grid point inside the stated region must be flagged, and factored where the '
              'statement says so.')
TECHNIQUE = ('exhaustive enumeration of the documented (size, word, deviation, limb) grid on the '
             'real checks; oracle = flagged / planted primes recorded (M1)')
RULE = ('every grid point of the stated region; distinct by construction; all points are '
        'non-trivial (each must be flagged); outcome classes separate flagged+factored / '
        'flagged-only / not constructible')
ASSUMPTIONS = ['proto/pybind shims of pmc.world', 'fpylll LLL as installed',
               'words / cofactors are fixed deterministic values (DRBG): the claim is "all grid '
               'points", not "all keys"',
               'exact repetitions (deviation 0) exist only when w does not divide the prime '
               'length; such grid points are counted as not constructible']

DEFAULT_W = list(range(1, 16, 2)) + [31, 63, 127, 255, 511] + [8, 16, 32, 64, 128, 256]


def _facts(key):
  return art.factors(key.test_info)


def _flagged(key, name):
  e = art.entry(key.test_info, name)
  return bool(e and e[0])


def case_bitpattern(nbits, w_, dev, idx, sizes=None):
  w = world.load()
  d = g.bit_pattern(nbits, w_, dev, idx)
  if d is None:
    return []
  key = art.rsa_key(d['n'])
  st, ret = guarded(w.rsa_single_checks.CheckBitPatterns(sizes).Check, [key])
  if st == 'exc':
    return ['CheckBitPatterns(%r) raised %s' % (sizes, ret)]
  if not (ret is True and _flagged(key, 'CheckBitPatterns') and
          _facts(key) == frozenset([d['p'], d['q']])):
    return ['%d-bit modulus whose prime repeats a %d-bit word apart from %d low bits (instance '
            '%d) is not flagged+factored by CheckBitPatterns(%r): returned %r, factors %s' %
            (nbits, w_, dev, idx, sizes, ret, 'recorded' if _facts(key) else 'none')]
  return []


def bitpatterns(nbits, words):
  r = Result()
  for w_ in DEFAULT_W:
    if w_ > nbits // 16 or w_ < 3:
      continue
    for dev in (0, 8, 16, 32):
      for idx in range(words):
        d = g.bit_pattern(nbits, w_, dev, idx)
        if d is None:
          r.ev('bitpattern/not-constructible', False)
          continue
        bad = case_bitpattern(nbits, w_, dev, idx)
        r.ev('bitpattern/dev%d' % dev, True)
        for b in bad:
          r.violation(b, {'fn': 'bitpattern', 'args': {'nbits': nbits, 'w_': w_, 'dev': dev,
                                                       'idx': idx}},
                      key={'fn': 'bitpattern', 'nbits': nbits, 'w': w_, 'dev': dev, 'idx': idx})
  r.sample({'modulus_bits': nbits, 'word_sizes': [x for x in DEFAULT_W if 3 <= x <= nbits // 16],
            'deviations': [0, 8, 16, 32], 'words': words})
  return r


def custom_lists(nbits):
  """User-supplied pattern-size lists (incl. sizes above the cut-off and unsorted lists)."""
  r = Result()
  for w_, sizes in ((31, [31]), (31, [4096, 31]), (31, [1, 31, 4096, 9999]), (16, [16, 8]),
                    (63, [127, 63, 255]), (64, [64]), (7, [7])):
    if w_ > nbits // 16:
      continue
    bad = case_bitpattern(nbits, w_, 16, 0, sizes)
    r.ev('custom-list', True)
    for b in bad:
      r.violation(b, {'fn': 'bitpattern', 'args': {'nbits': nbits, 'w_': w_, 'dev': 16, 'idx': 0,
                                                   'sizes': sizes}})
  r.sample({'custom_pattern_size_lists': 7, 'modulus_bits': nbits})
  return r


def case_permuted(nbits, wsize, psize, idx):
  w = world.load()
  d = g.permuted_pattern(nbits, wsize, psize, idx)
  if d is None:
    return []
  key = art.rsa_key(d['n'])
  st, ret = guarded(w.rsa_single_checks.CheckPermutedBitPatterns().Check, [key])
  if st == 'exc':
    return ['CheckPermutedBitPatterns raised %s' % ret]
  if not (ret is True and _facts(key) == frozenset([d['p'], d['q']])):
    return ['%d-bit modulus whose prime repeats a %d-bit word with %d-bit limbs swapped (instance '
            '%d) is not flagged+factored by CheckPermutedBitPatterns (returned %r)' %
            (nbits, psize, wsize, idx, ret)]
  return []


def permuted(nbits, words):
  r = Result()
  for wsize in (8, 16, 32, 64):
    for psize in range(3, wsize, 2):
      dd = (2**psize - 1) * (2**(psize * wsize) + 1) // (2**wsize + 1)
      if dd.bit_length() > nbits // 10:
        break
      for idx in range(words):
        bad = case_permuted(nbits, wsize, psize, idx)
        r.ev('permuted/limb%d' % wsize, True)
        for b in bad:
          r.violation(b, {'fn': 'permuted', 'args': {'nbits': nbits, 'wsize': wsize,
                                                     'psize': psize, 'idx': idx}},
                      key={'fn': 'permuted', 'nbits': nbits, 'wsize': wsize, 'psize': psize,
                           'idx': idx})
  r.sample({'modulus_bits': nbits, 'limbs': [8, 16, 32, 64],
            'pattern_sizes': 'every odd size with denominator <= bits/10', 'words': words})
  return r


def case_both(nbits, w_, idx):
  w = world.load()
  d = g.both_patterned(nbits, w_, idx)
  if d is None:
    return []
  key = art.rsa_key(d['n'])
  st, ret = guarded(w.rsa_single_checks.CheckContinuedFractions().Check, [key])
  if st == 'exc':
    return ['CheckContinuedFractions raised %s' % ret]
  f = _facts(key)
  if ret is not True or (f is not None and f != frozenset([d['p'], d['q']])):
    return ['%d-bit modulus whose primes both repeat %d-bit words (instance %d) is not flagged by '
            'CheckContinuedFractions (returned %r)' % (nbits, w_, idx, ret)]
  return []


def both(nbits):
  r = Result()
  for w_ in (17, 23, 31, 37, 47, 61, 63):
    for idx in range(2):
      d = g.both_patterned(nbits, w_, idx)
      if d is None:
        r.ev('both/not-constructible', False)
        continue
      bad = case_both(nbits, w_, idx)
      r.ev('both-patterned', True)
      for b in bad:
        r.violation(b, {'fn': 'both', 'args': {'nbits': nbits, 'w_': w_, 'idx': idx}},
                    key={'fn': 'both', 'nbits': nbits, 'w': w_, 'idx': idx})
  r.sample({'modulus_bits': nbits, 'word_sizes': [17, 23, 31, 37, 47, 61, 63]})
  return r


def case_lhw(nbits, weight, idx):
  w = world.load()
  d = g.low_hamming(nbits, weight, idx)
  key = art.rsa_key(d['n'])
  st, ret = guarded(w.rsa_single_checks.CheckLowHammingWeight().Check, [key])
  if st == 'exc':
    return ['CheckLowHammingWeight raised %s' % ret]
  f = _facts(key)
  if ret is not True or (f is not None and nt.prod(f) != d['n']):
    return ['%d-bit modulus whose primes both have Hamming weight %d (instance %d) is not flagged '
            'by CheckLowHammingWeight (returned %r)' % (nbits, weight, idx, ret)]
  return []


def lhw(nbits, weight, count):
  r = Result()
  for idx in range(count):
    bad = case_lhw(nbits, weight, idx)
    r.ev('low-hamming/w%d' % weight, True)
    for b in bad:
      r.violation(b, {'fn': 'lhw', 'args': {'nbits': nbits, 'weight': weight, 'idx': idx}},
                  key={'fn': 'lhw', 'nbits': nbits, 'weight': weight, 'idx': idx})
  r.sample({'modulus_bits': nbits, 'hamming_weight': weight, 'instances': count})
  return r


def case_pm1(nbits, both_, idx):
  w = world.load()
  d = g.pm1_smooth(nbits, both_, idx)
  key = art.rsa_key(d['n'])
  st, ret = guarded(w.rsa_single_checks.CheckPollardpm1().Check, [key])
  if st == 'exc':
    return ['CheckPollardpm1 raised %s' % ret]
  f = _facts(key)
  if ret is not True:
    return ['%d-bit modulus with p-1, q-1 sharing a %d-bit smooth factor (%s smooth, instance %d) '
            'is not flagged by CheckPollardpm1' % (nbits, d['shared_bits'],
                                                   'both' if both_ else 'one', idx)]
  if not both_ and f != frozenset([d['p'], d['q']]):
    return ['%d-bit modulus with only p-1 smooth (instance %d) flagged but not factored by '
            'CheckPollardpm1: factors %r' % (nbits, idx, f)]
  if f is not None and nt.prod(f) != d['n']:
    return ['CheckPollardpm1 recorded wrong factors']
  return []


def pm1(nbits, count):
  r = Result()
  for both_ in (False, True):
    for idx in range(count):
      bad = case_pm1(nbits, both_, idx)
      r.ev('pm1/%s' % ('both-smooth' if both_ else 'one-smooth'), True)
      for b in bad:
        r.violation(b, {'fn': 'pm1', 'args': {'nbits': nbits, 'both_': both_, 'idx': idx}},
                    key={'fn': 'pm1', 'nbits': nbits, 'both': both_, 'idx': idx})
  r.sample({'modulus_bits': nbits, 'instances': count, 'variants': ['one smooth', 'both smooth']})
  return r


CASES = {'bitpattern': case_bitpattern, 'permuted': case_permuted, 'both': case_both,
         'lhw': case_lhw, 'pm1': case_pm1}


def plan(tier, seed):
  thorough = tier == 'thorough'
  T = []
  words = 8 if thorough else 3
  for nbits in (1024, 2048, 3072, 4096):
    T.append(Task('bit-patterns', 'bitpatterns', {'nbits': nbits, 'words': words},
                  bound='4 modulus sizes x every default word size w with 3 <= w <= bits/16 x '
                  'deviations {0,8,16,32} x %d words' % words, weight=nbits**2 * 40))
    T.append(Task('custom-pattern-lists', 'custom_lists', {'nbits': nbits},
                  bound='7 user-supplied pattern-size lists', weight=nbits**2))
    T.append(Task('permuted-patterns', 'permuted', {'nbits': nbits, 'words': words},
                  bound='limbs {8,16,32,64} x every odd pattern size with denominator <= bits/10 x '
                  '%d words' % words, weight=nbits**2 * 10))
    T.append(Task('both-patterned', 'both', {'nbits': nbits},
                  bound='both primes repeat a word of 17..63 bits x 2 instances',
                  weight=nbits**2 * 10))
  for nbits in ((1024, 2048, 3072) if thorough else (1024, 2048)):
    T.append(Task('pollard-pm1', 'pm1', {'nbits': nbits, 'count': 6 if thorough else 3},
                  bound='p-1, q-1 share a >= 2^60 smooth factor; one / both smooth',
                  weight=nbits**2 * 300))
  for nbits in (1024, 2048):
    for weight in (8, 16, 24, 32):
      T.append(Task('low-hamming-weight', 'lhw', {'nbits': nbits, 'weight': weight,
                                                  'count': 3 if thorough else 1},
                    bound='both primes of Hamming weight 8/16/24/32, 1024- and 2048-bit moduli',
                    weight=nbits**2 * weight * 500))
  return T
