"""C18 -- checks are total on well-formed batches."""
import itertools

from pmc import alpha_ec as AE
from pmc import alpha_rsa, art, world
from pmc import gen_ec as G
from pmc.refs import nt
from pmc.core import Result, Task, guarded

ID = 'C18'
LEVEL = 'exploration'
LEVEL_TEXT = ('Bounded-exhaustive exploration of totality: every batch of size 0, 1 and 2 (3 for '
              'RSA in thorough) over degenerate alphabets -- RSA moduli >= 2^63 that are prime, '
              'square, even, powers of two, of odd length, with 6 exponent encodings; EC keys on '
              'every curve identifier 0..19 plus unknown ones with 15 coordinate variants (0, p, '
              'p+x, huge, off-curve, empty); ECDSA signatures with r,s in {1, n-1, mid}, 5 hash '
              'lengths and 5 issuer-key variants -- through every individual check and the three '
              'entry points. Oracle: a bool is returned, nothing is raised.')
TECHNIQUE = ('bounded-exhaustive enumeration of all batches of size <= 2 over degenerate artifact '
             'alphabets on the real checks; oracle = returns bool without raising (M1)')
RULE = ('every (check, batch) with batch size 0..2 over the alphabet; distinct by construction; '
        'non-trivial = the batch contains a degenerate artifact (everything except the healthy '
        'reference artifacts)')
ASSUMPTIONS = ['proto/pybind shims of pmc.world',
               'CheckAllEC / CheckAllECDSASigs on two distinct keys of one curve build a 2^24 '
               'point table (3.5 GB, 60 s): exercised by a few dedicated memory-heavy tasks; the '
               'bulk of two-key batches uses CheckECKeySmallDifference(max_diff=2^10)',
               'CheckLowHammingWeight on 2^2203-1 takes 20 s: size-1 batches only']


def _isbool(x):
  return isinstance(x, bool) or type(x).__name__ == 'bool_'


def _u512():
  w = world.load()
  return sorted(w.unseeded_rands.size_unseeded_map[512])[0]


# ---- RSA ----------------------------------------------------------------------------

RSA_NAMES = ['strong-2048', 'prime-64', 'prime-65', 'prime-2048', 'square-66', 'square-2048',
             '2p-65', '2p-1025', '2^63', '2^64', '2^2048', '2^64-1', '2^127-1', 'n=1mod8-prime',
             'three-primes', 'cube', 'odd-bitlen-2047', 'smooth', 'nested', 'shared-a',
             'low-hamming-plus1', 'keypair-lowbits-altered', 'fermat-128', 'roca-1024']
EXPS = ['none', 0, 1, 3, 65537, 2**64 + 1]


def _rsa_checks(w):
  S, A = w.rsa_single_checks, w.rsa_aggregate_checks
  out = [(c.__name__, c, []) for c in (
      S.CheckSizes, S.CheckExponents, S.CheckROCA, S.CheckROCAVariant, S.CheckFermat,
      S.CheckHighAndLowBitsEqual, S.CheckOpensslDenylist, S.CheckContinuedFractions,
      S.CheckBitPatterns, S.CheckPermutedBitPatterns, S.CheckPollardpm1,
      S.CheckLowHammingWeight, S.CheckUnseededRand, S.CheckSmallUpperDifferences,
      S.CheckKeypairDenylist, A.CheckGCD, A.CheckGCDN1)]
  out += [('CheckBitPatterns[[]]', S.CheckBitPatterns, [[]]),
          ('CheckBitPatterns[[4096,1]]', S.CheckBitPatterns, [[4096, 1]]),
          ('CheckFermat[0]', S.CheckFermat, [0]), ('CheckGCDN1[1]', A.CheckGCDN1, [1]),
          ('CheckContinuedFractions[1]', S.CheckContinuedFractions, [1]),
          ('CheckPollardpm1[3]', S.CheckPollardpm1, [3])]
  return out


def case_rsa(check, names, exps):
  w = world.load()
  alpha = {nm: n for nm, n, _ in alpha_rsa.alphabet(_u512())}
  keys = []
  for nm, e in zip(names, exps):
    keys.append(art.rsa_key(alpha[nm], None if e == 'none' else e))
  if check == 'CheckAllRSA':
    st, ret = guarded(w.paranoid.CheckAllRSA, keys)
  else:
    cls, args = [(c, a) for n_, c, a in _rsa_checks(w) if n_ == check][0]
    st, obj = guarded(cls, *args)
    if st == 'exc':
      return ['%s constructor raised %s' % (check, obj)]
    st, ret = guarded(obj.Check, keys)
  if st == 'exc':
    return ['%s on the RSA batch %s (exponents %s) raised %s' % (check, names, exps, ret)]
  if not _isbool(ret):
    return ['%s on the RSA batch %s returned %r (not a bool)' % (check, names, ret)]
  return []


def rsa(check, maxlen):
  r = Result()
  names = RSA_NAMES + (['2^2203-1'] if check in ('CheckLowHammingWeight', 'CheckAllRSA') else [])
  for ln in range(0, maxlen + 1):
    for batch in itertools.product(names, repeat=ln):
      if '2^2203-1' in batch and ln > 1:
        continue
      if ln == 3 and len(set(batch)) == 3 and batch[0] > batch[1]:
        continue
      exps = [EXPS[(i + len(batch[0]) if batch else 0) % len(EXPS)] for i in range(ln)]
      variants = [exps]
      if ln == 1:
        variants = [[e] for e in EXPS]
      if '2^2203-1' in batch:
        variants = variants[:1]
      elif ln == 1 and check in ('CheckAllRSA', 'CheckLowHammingWeight', 'CheckPollardpm1'):
        variants = [[EXPS[(len(batch[0]) + i) % len(EXPS)]] for i in (0, 3)]
      for ex in variants:
        bad = case_rsa(check, list(batch), ex)
        r.ev('rsa/len%d' % ln, any(b != 'strong-2048' for b in batch) or ln == 0)
        for b in bad:
          r.violation(b, {'fn': 'rsa', 'args': {'check': check, 'names': list(batch),
                                                'exps': ex}})
    if len(r.violations) > 10:
      break
  r.sample({'check': check, 'moduli': len(names), 'batch_sizes': [0, maxlen],
            'exponents': [str(e) for e in EXPS]})
  return r


def rsa_pairs_small(check):
  r = Result()
  names = ['strong-2048', 'prime-64', '2^64', '2p-65', 'square-66', 'shared-a', 'nested',
           'smooth']
  for a, b_ in itertools.product(names, repeat=2):
    bad = case_rsa(check, [a, b_], [65537, 3])
    r.ev('rsa/len2', True)
    for b in bad:
      r.violation(b, {'fn': 'rsa', 'args': {'check': check, 'names': [a, b_],
                                            'exps': [65537, 3]}})
  r.sample({'check': check, 'pairs_over': names})
  return r


# ---- EC -------------------------------------------------------------------------------------

def _ec_alphabet():
  out = []
  for cid in AE.KNOWN:
    for nm, _, _ in AE.coord_variants(cid):
      out.append((cid, nm))
  for cid in list(AE.BINARY) + [0, 20, 99]:
    for nm in AE.unknown_variants():
      out.append((cid, nm))
  return out


def _ec_checks(w):
  S, A = w.ec_single_checks, w.ec_aggregate_checks
  return [('CheckValidECKey', S.CheckValidECKey, []), ('CheckWeakCurve', S.CheckWeakCurve, []),
          ('CheckWeakECPrivateKey', S.CheckWeakECPrivateKey, []),
          ('CheckECKeySmallDifference[1024]', A.CheckECKeySmallDifference, [1024]),
          ('CheckECKeySmallDifference[1]', A.CheckECKeySmallDifference, [1])]


def case_ec(check, batch):
  w = world.load()
  keys = [AE.ec_key(cid, nm) for cid, nm in batch]
  if check == 'CheckAllEC':
    st, ret = guarded(w.paranoid.CheckAllEC, keys)
  else:
    cls, args = [(c, a) for n_, c, a in _ec_checks(w) if n_ == check][0]
    st, ret = guarded(cls(*args).Check, keys)
  if st == 'exc':
    return ['%s on the EC batch %s raised %s' % (check, batch, ret)]
  if not _isbool(ret):
    return ['%s on the EC batch %s returned %r (not a bool)' % (check, batch, ret)]
  return []


def ec(check, cids, pair_mode):
  """Batches of size 0..2 where both keys lie on the curves in `cids` (same-curve pairs are
  the interesting ones) plus cross-curve pairs with a fixed partner."""
  r = Result()
  alpha = [a for a in _ec_alphabet() if a[0] in cids]
  if 0 in cids:
    for b in case_ec(check, []):
      r.violation(b, {'fn': 'ec', 'args': {'check': check, 'batch': []}})
    r.ev('ec/len0', True)
  for a in alpha:
    bad = case_ec(check, [a])
    r.ev('ec/len1', a[1] not in ('G', 'random'))
    for b in bad:
      r.violation(b, {'fn': 'ec', 'args': {'check': check, 'batch': [list(a)]}})
  if pair_mode:
    for a in alpha:
      for b_ in alpha:
        if a[0] != b_[0] and not (a[1] == 'G' or b_[1] in ('G', 'small')):
          continue
        if pair_mode == 'star' and not (a[1] == 'G' or b_[1] == 'G' or a == b_):
          continue
        bad = case_ec(check, [a, b_])
        r.ev('ec/len2/%s' % ('same-curve' if a[0] == b_[0] else 'cross'), True)
        for b in bad:
          r.violation(b, {'fn': 'ec', 'args': {'check': check, 'batch': [list(a), list(b_)]}})
      if len(r.violations) > 10:
        break
  r.sample({'check': check, 'curve_ids': list(cids), 'variants_per_known_curve': 15,
            'pairs': bool(pair_mode)})
  return r


def ec_heavy(batch):
  """CheckAllEC on two keys of one curve (default max_diff = 2^24)."""
  r = Result()
  bad = case_ec('CheckAllEC', batch)
  r.ev('ec/heavy', True)
  for b in bad:
    r.violation(b, {'fn': 'ec', 'args': {'check': 'CheckAllEC', 'batch': batch}})
  r.sample({'CheckAllEC': batch, 'table': '2^24 entries'})
  return r


# ---- ECDSA ------------------------------------------------------------------------------------

def _sig_alphabet(cids, small):
  out = []
  rs = [('1', '1'), ('n-1', 'n-1'), ('mid', '1'), ('1', 'mid'), ('rnd', 'mid')]
  hls = [0, 1, 20, 32, 64]
  issuers = ['valid', 'offcurve', 'x+p', 'zero']
  for cid in cids:
    for i, (rn, sn) in enumerate(rs):
      for j, hl in enumerate(hls):
        for k, iss in enumerate(issuers):
          if small and (i + j + k) % 3:
            continue
          out.append((cid, rn, sn, hl, iss))
  return out


def _ecdsa_checks(w):
  E = w.ecdsa_sig_checks
  return [(c.__name__, c) for c in (E.CheckLCGNonceGMP, E.CheckLCGNonceJavaUtilRandom,
                                   E.CheckNonceMSB, E.CheckNonceCommonPrefix,
                                   E.CheckNonceCommonPostfix, E.CheckNonceGeneralized,
                                   E.CheckCr50U2f)]


def case_ecdsa(check, batch):
  w = world.load()
  sigs = [AE.sig(*b) for b in batch]
  if check == 'CheckAllECDSASigs':
    st, ret = guarded(w.paranoid.CheckAllECDSASigs, sigs)
  elif check == 'CheckIssuerKey':
    st, ret = guarded(w.ecdsa_sig_checks.CheckIssuerKey().Check, sigs)
  else:
    cls = dict(_ecdsa_checks(w))[check]
    st, ret = guarded(cls().Check, sigs)
  if st == 'exc':
    return ['%s on the ECDSA batch %s raised %s' % (check, batch, ret)]
  if not _isbool(ret):
    return ['%s on the ECDSA batch %s returned %r (not a bool)' % (check, batch, ret)]
  return []


def ecdsa(check, cids, mode):
  r = Result()
  alpha = _sig_alphabet(cids, small=(mode != 'full'))
  if mode == 'singles':
    alpha = alpha[::2]
  if cids[0] == 2:
    for b in case_ecdsa(check, []):
      r.violation(b, {'fn': 'ecdsa', 'args': {'check': check, 'batch': []}})
    r.ev('ecdsa/len0', True)
  one_issuer = check in ('CheckAllECDSASigs', 'CheckIssuerKey')
  for a in alpha:
    bad = case_ecdsa(check, [a])
    r.ev('ecdsa/len1', True)
    for b in bad:
      r.violation(b, {'fn': 'ecdsa', 'args': {'check': check, 'batch': [list(a)]}})
  if mode != 'singles':
    for i, a in enumerate(alpha):
      for j, b_ in enumerate(alpha):
        if one_issuer and a[0] == b_[0] and a[4] != b_[4]:
          continue  # two distinct issuer keys on one curve: memory-heavy, done separately
        if (i * 7 + j) % (1 if mode == 'full' else 5) and a != b_:
          continue
        bad = case_ecdsa(check, [a, b_])
        r.ev('ecdsa/len2/%s' % ('dup' if a == b_ else 'pair'), True)
        for b in bad:
          r.violation(b, {'fn': 'ecdsa', 'args': {'check': check,
                                                  'batch': [list(a), list(b_)]}})
      if len(r.violations) > 10:
        break
  r.sample({'check': check, 'curve_ids': list(cids), 'signatures': len(alpha), 'mode': mode})
  return r


def ecdsa_heavy(batch):
  r = Result()
  bad = case_ecdsa('CheckAllECDSASigs', batch)
  r.ev('ecdsa/heavy', True)
  for b in bad:
    r.violation(b, {'fn': 'ecdsa', 'args': {'check': 'CheckAllECDSASigs', 'batch': batch}})
  r.sample({'CheckAllECDSASigs': batch, 'two_issuers_one_curve': True})
  return r


def case_ecdsa_size(check, cid, counts):
  """`counts[i]` distinct well-formed signatures of issuer i (valid keys i+1 times G) on one
  curve, interleaved round-robin."""
  w = world.load()
  n = G.curve(cid).n
  per = []
  for i, cnt in enumerate(counts):
    q = G.gmul(cid, 1000003 * (i + 1))
    per.append([art.ecdsa_sig(cid, q[0], q[1],
                              nt.drbg_int('c18sz-r-%d-%d-%d' % (cid, i, j), 600) % (n - 1) + 1,
                              nt.drbg_int('c18sz-s-%d-%d-%d' % (cid, i, j), 600) % (n - 1) + 1,
                              nt.drbg('c18sz-h-%d-%d' % (i, j), 32)) for j in range(cnt)])
  sigs = []
  for j in range(max(counts) if counts else 0):
    for lst in per:
      if j < len(lst):
        sigs.append(lst[j])
  cls = dict(_ecdsa_checks(w))[check]
  st, ret = guarded(cls().Check, sigs)
  if st == 'exc':
    return ['%s on %s distinct signatures per issuer (curve id %d) raised %s' % (check, counts,
                                                                                cid, ret)]
  if not _isbool(ret):
    return ['%s on %s signatures per issuer returned %r (not a bool)' % (check, counts, ret)]
  return []


SIZE_EDGES = [71, 72, 73, 95, 96, 97, 119, 120, 121, 143, 144, 145, 239, 240, 241]


def ecdsa_sizes(check, cid, sizes, layouts=3):
  r = Result()
  for N in sizes:
    for counts in ([N], [N, 1], [N, N])[:layouts] if N else ([0],):
      bad = case_ecdsa_size(check, cid, counts)
      r.ev('ecdsa/size/%s' % ('multiple-of-24' if N and N % 24 == 0 else (
          'small' if N < 24 else 'other')), True)
      for b in bad:
        r.violation(b, {'fn': 'ecdsa_size', 'args': {'check': check, 'cid': cid,
                                                     'counts': counts}})
    if len(r.violations) > 6:
      break
  r.sample({'check': check, 'curve_id': cid, 'signatures_per_issuer': sizes[:8] + ['...'],
            'issuer_layouts': ['one issuer', 'plus a second issuer with 1', 'two issuers'] })
  return r


CASES = {'rsa': case_rsa, 'ec': case_ec, 'ecdsa': case_ecdsa, 'ecdsa_size': case_ecdsa_size}


def plan(tier, seed):
  thorough = tier == 'thorough'
  T = []
  w = world.load()
  for nm, _, _ in _rsa_checks(w) + [('CheckAllRSA', None, None)]:
    heavy = nm in ('CheckAllRSA', 'CheckLowHammingWeight', 'CheckPollardpm1',
                   'CheckPollardpm1[3]')
    aggregate = nm.startswith(('CheckGCD', 'CheckAllRSA'))
    if thorough:
      ml = 2 if heavy else 3
    else:
      ml = 2 if (aggregate and nm != 'CheckAllRSA') else 1
    T.append(Task('rsa-batches', 'rsa', {'check': nm, 'maxlen': ml},
                  bound='24 degenerate moduli x 6 exponent encodings x 23 check configurations + '
                  'CheckAllRSA; quick: every batch of size 0..1 (0..2 for the shared-factor '
                  'checks, pairs for CheckAllRSA on 8 moduli); thorough: size 0..3 (0..2 for the '
                  'slow checks)', weight=5e8 if heavy else 5e7))
  if not thorough:
    T.append(Task('rsa-batches', 'rsa_pairs_small', {'check': 'CheckAllRSA'}, bound='',
                  weight=4e8))
  groups = [[0, 2], [4], [1], [3], [5], [6], [17], [18], [19], list(AE.BINARY) + [20, 99]]
  rot = [2, 5, 19, 6, 4, 1, 3, 17, 18]
  quick_all = {rot[seed % 9], rot[(seed + 1) % 9]}
  for nm, _, _ in _ec_checks(w):
    for g in groups:
      slow = 'Private' in nm
      if not slow:
        pairs = True
      elif thorough:
        pairs = 'star' if set(g) & {5, 19, 18, 4} else True
      else:
        pairs = 'star' if set(g) & ({rot[seed % 9]} - {5, 19, 18, 4}) else False
      T.append(Task('ec-batches', 'ec', {'check': nm, 'cids': g, 'pair_mode': pairs},
                    bound='every curve id 0..19 + 20, 99 x 15 (4) coordinate variants; every batch '
                    'of size 0..2 on one curve + cross-curve pairs, 5 check configurations '
                    '(quick: CheckWeakECPrivateKey pairs on 2 rotating curves); CheckAllEC on '
                    'single keys (quick: 2 rotating curves + unknown ids)',
                    weight=3e8 if slow else 3e7))
  for g in groups:
    if thorough or set(g) & quick_all or g[0] == 7:
      T.append(Task('ec-batches', 'ec', {'check': 'CheckAllEC', 'cids': g, 'pair_mode': False},
                    bound='', weight=3e8))
  T.append(Task('ec-batches', 'ec', {'check': 'CheckAllEC', 'cids': [0, 7, 20, 99],
                                     'pair_mode': True}, bound='', weight=1e7))
  heavy_batches = []
  if thorough:
    heavy_batches = [[[2, 'G'], [2, 'Gx+p']], [[6, 'off-curve'], [6, 'random']],
                     [[5, 'Px+p'], [5, 'random']], [[1, 'zero'], [1, 'huge']],
                     [[19, 'G'], [19, 'G']], [[4, 'empty'], [4, 'leading-zeros']]]
  for hb in heavy_batches:
    T.append(Task('ec-default-table', 'ec_heavy', {'batch': hb}, mem_heavy=True,
                  bound='CheckAllEC with the default 2^24 difference table on %d two-key '
                  'batches' % len(heavy_batches), weight=1e9))
  sig_groups = [[2], [6], [5], [1, 3], [4, 17], [18, 19], [7, 12, 0, 99]]
  for nm, _ in _ecdsa_checks(w) + [('CheckIssuerKey', None), ('CheckAllECDSASigs', None)]:
    slow = nm in ('CheckLCGNonceJavaUtilRandom', 'CheckAllECDSASigs', 'CheckIssuerKey')
    # all 10^4..10^5 ordered pairs are affordable only for the checks that cost milliseconds
    full_ok = nm in ('CheckNonceMSB', 'CheckNonceCommonPrefix', 'CheckNonceCommonPostfix',
                     'CheckNonceGeneralized')
    for g in sig_groups:
      mode = 'full' if (thorough and full_ok) else ('sparse' if not slow or thorough
                                                      else 'singles')
      if thorough and slow and len(g) > 1:
        mode = 'singles'  # pairs over two curves cost hours for the three slow checks
      T.append(Task('ecdsa-batches', 'ecdsa', {'check': nm, 'cids': g, 'mode': mode},
                    complete=(mode == 'full'),
                    bound='signatures: 9 known + 4 unknown/binary curve ids x 5 (r,s) x 5 hash '
                    'lengths x 4 issuer keys; batches of size 0..2 incl. duplicates; 9 checks '
                    '(quick: every 3rd signature, every 5th pair; entry point and issuer check on '
                    'single signatures)', weight=5e8 if slow else 5e7))
  for nm, _ in _ecdsa_checks(w):
    layouts = 3
    if thorough:
      if nm in ('CheckNonceMSB', 'CheckCr50U2f'):
        szs = list(range(0, 51)) + SIZE_EDGES[:9]
      elif nm == 'CheckLCGNonceJavaUtilRandom':
        szs = list(range(0, 27)) + [47, 48, 49]
      else:
        szs = list(range(0, 51)) + [71, 72, 73]
    elif nm == 'CheckLCGNonceJavaUtilRandom':
      szs, layouts = [0, 1, 2, 23, 24, 25], 1
    elif nm == 'CheckLCGNonceGMP':
      szs = list(range(0, 27)) + [47, 48, 49]
    elif nm == 'CheckCr50U2f':
      szs = list(range(0, 51)) + [71, 72, 73, 95, 96, 97, 119, 120, 121]
    elif nm == 'CheckNonceMSB':
      szs = list(range(0, 27)) + [47, 48, 49, 71, 72, 73]
    else:
      szs = list(range(0, 27)) + [47, 48, 49]
    nparts = 8 if thorough else 4
    for part in range(nparts):
      T.append(Task('ecdsa-batch-sizes', 'ecdsa_sizes',
                    {'check': nm, 'cid': (2, 6)[part % 2 if thorough else 0]
                     if nm == 'CheckCr50U2f' else (  # U2F: 256-bit curves (very slow elsewhere)
                         rot[(seed + part) % 9] if thorough or part else 2),
                     'sizes': szs[part::nparts], 'layouts': layouts},
                    bound='every number 0..50 of distinct signatures per issuer and the values '
                    'around multiples of 24 (window sizes 24/48/120 of the nonce checks; up to '
                    '121 in the thorough tier, fewer for the two slow LCG checks in the quick '
                    'tier) x {one issuer, +1 signature of a second, two issuers} x 7 nonce '
                    'checks', weight=3e8))
  cidh = rot[seed % 9]
  hs = [[[cidh, 'rnd', 'mid', 32, 'valid'], [cidh, '1', 'mid', 20, 'x+p']]]
  if thorough:
    hs += [[[5, 'n-1', 'n-1', 64, 'valid'], [5, '1', '1', 0, 'offcurve']],
           [[6, 'mid', '1', 1, 'zero'], [6, 'rnd', 'mid', 32, 'valid']]]
  for hb in hs:
    T.append(Task('ecdsa-two-issuers', 'ecdsa_heavy', {'batch': hb}, mem_heavy=True,
                  bound='CheckAllECDSASigs with two distinct issuer keys on one curve (default '
                  '2^24 difference table through CheckIssuerKey -> CheckAllEC)', weight=1e9))
  return T
