"""C15 -- bit-sequence primitives match their one-line definitions."""
import itertools

from pmc import world
from pmc.core import Result, Task, guarded
from pmc.refs import bits as rb
from pmc.refs import nt

ID = 'C15'
LEVEL = 'exploration'
LEVEL_TEXT = ('Bounded-exhaustive exploration of the real primitives of '
              'randomness_tests/util.py: every bit string of every length 0..16 x '
              'every legal parameter, every binary matrix up to 4x4 (plus 3x5, 5x3), '
              'and complete structured families that force each size-selected fast '
              'path, each compared with a one-line definition.')
TECHNIQUE = ('bounded-exhaustive enumeration of all short bit strings / small matrices '
             'on the real code vs. definition-level reference (stateless model '
             'checking, M1)')
RULE = ('every (string, length) with length<=L x every m (and wrap) per primitive; '
        'distinct by construction; non-trivial = string is neither all-zero nor '
        'all-one (matrices: rank is neither 0 nor full); fast-path families: every '
        'window content at every position on all-0/all-1 background')
ASSUMPTIONS = ['proto/pybind shims of pmc.world',
               'references in pmc/refs/bits.py (definitions over bit lists)',
               'FrequencyCount fast path m=23/24 (needs > 4*10^8 bits) not exercised']


def _cmp(out, name, args, st_got, exp):
  st, got = st_got
  if st == 'exc':
    out.append('%s%r raised %s, definition gives %r' % (name, args, got, _short(exp)))
  elif got != exp:
    out.append('%s%r = %r, definition gives %r' % (name, args, _short(got), _short(exp)))


def _short(x):
  s = repr(x)
  return s if len(s) < 160 else s[:160] + '...'


def case_string(seq, length, mmax=None, prims=None):
  """All primitives on one string."""
  w = world.load()
  u = w.rt_util
  out = []
  mmax = length if mmax is None else min(mmax, length)
  P = prims

  def on(name):
    return P is None or name in P

  if on('ReverseBits'):
    _cmp(out, 'ReverseBits', (seq, length), guarded(u.ReverseBits, seq, length),
         rb.reverse_bits(seq, length))
  if on('Bits'):
    st, got = guarded(u.Bits, seq, length)
    _cmp(out, 'Bits', (seq, length), (st, list(got) if st == 'ok' else got),
         rb.pm1(seq, length))
  if on('BitCount'):
    _cmp(out, 'BitCount', (seq,), guarded(lambda: int(u.BitCount(seq))),
         rb.popcount(seq))
  if on('Runs'):
    _cmp(out, 'Runs', (seq, length), guarded(lambda: int(u.Runs(seq, length))),
         rb.runs(seq, length))
  if on('LongestRunOfOnes'):
    _cmp(out, 'LongestRunOfOnes', (seq,), guarded(u.LongestRunOfOnes, seq),
         rb.longest_run_of_ones(seq))
  for m in range(1, (mmax if P is None else mmax) + 1):
    for wrap in (True, False):
      exp = rb.windows(seq, length, m, wrap)
      if on('FrequencyCount'):
        cnt = [0] * (1 << m)
        for x in exp:
          cnt[x] += 1
        _cmp(out, 'FrequencyCount', (seq, length, m, wrap),
             guarded(u.FrequencyCount, seq, length, m, wrap), cnt)
      if on('SubSequences'):
        _cmp(out, 'sorted(SubSequences)', (seq, length, m, wrap),
             guarded(lambda: sorted(u.SubSequences(seq, length, m, wrap))),
             sorted(exp))
  if on('SplitSequence'):
    for m in range(1, max(mmax, 1) + 2):
      _cmp(out, 'SplitSequence', (seq, length, m),
           guarded(u.SplitSequence, seq, length, m), rb.split(seq, length, m))
  if on('Scatter'):
    for m in range(1, max(mmax, 1) + 2):
      _cmp(out, 'Scatter', (seq, m), guarded(u.Scatter, seq, m), rb.scatter(seq, m))
  if on('OverlappingRunsOfOnes'):
    for m in range(1, max(mmax, 1) + 2):
      _cmp(out, 'OverlappingRunsOfOnes', (seq, m),
           guarded(lambda: int(u.OverlappingRunsOfOnes(seq, m))),
           rb.overlapping_runs(seq, m))
  return out


def strings(length, part, nparts):
  r = Result()
  n = 1 << length
  lo, hi = part * n // nparts, (part + 1) * n // nparts
  for seq in range(lo, hi):
    bad = case_string(seq, length)
    r.ev('len%d' % length, seq not in (0, n - 1))
    for b in bad[:2]:
      r.violation(b, {'fn': 'string', 'args': {'seq': seq, 'length': length}})
    if len(r.violations) > 20:
      break
  r.sample({'length': length, 'seq_range': [lo, hi - 1],
            'per_string': 'all primitives, m=1..length(+1), wrap in {T,F}'})
  return r


def case_matrix(rows, pad=0, padrow=0):
  w = world.load()
  out = []
  m = list(rows) + [padrow] * pad
  exp = rb.rank_gf2(m)
  _cmp(out, 'BinaryMatrixRank', (m if len(m) < 12 else ('%d rows' % len(m), m[:6]),),
       guarded(w.rt_util.BinaryMatrixRank, list(m)), exp)
  return out


def matrices(r0, part, nparts):
  """All matrices with r0 rows over c<=4 columns (rows are ints < 16), plus the
  same matrix padded to 50 / 64 rows (forces the table-driven path)."""
  r = Result()
  idx = 0
  for rows in itertools.product(range(16), repeat=r0):
    idx += 1
    if idx % nparts != part:
      continue
    exp = rb.rank_gf2(rows)
    nontriv = 0 < exp < min(r0, 4)
    bad = case_matrix(list(rows))
    r.ev('small/rank%d' % exp, nontriv)
    for b in bad:
      r.violation(b, {'fn': 'matrix', 'args': {'rows': list(rows)}})
    for pad, padrow in ((50 - r0, 0), (50 - r0, rows[0] if rows else 0), (64, 0)):
      bad = case_matrix(list(rows), pad, padrow)
      r.ev('padded/rank%d' % exp, nontriv)
      for b in bad:
        r.violation(b, {'fn': 'matrix',
                        'args': {'rows': list(rows), 'pad': pad, 'padrow': padrow}})
  r.sample({'rows': r0, 'cols<=': 4, 'padded_to': [50, 50, 64 + r0]})
  return r


def matrices_rect():
  r = Result()
  for rows, cols in ((3, 5), (5, 3)):
    for mat in itertools.product(range(1 << cols), repeat=rows):
      exp = rb.rank_gf2(mat)
      bad = case_matrix(list(mat))
      r.ev('rect/rank%d' % exp, 0 < exp < min(rows, cols))
      for b in bad:
        r.violation(b, {'fn': 'matrix', 'args': {'rows': list(mat)}})
  r.sample({'shapes': ['3x5', '5x3'], 'all_matrices': True})
  return r


def _big_matrices(nrows, seed):
  """Structured families for the table-driven path."""
  fams = []
  ident = [1 << i for i in range(nrows)]
  fams.append(('identity', ident))
  perm = [1 << ((7 * i + 3) % nrows) for i in range(nrows)]
  if len(set(perm)) == nrows:
    fams.append(('permutation', perm))
  rnd = [nt.drbg_int('c15m%d-%d-%d' % (seed, nrows, i), nrows) for i in range(nrows)]
  fams.append(('random', rnd))
  fams.append(('random-wide', [nt.drbg_int('c15w%d-%d-%d' % (seed, nrows, i),
                                           2 * nrows + 3) for i in range(nrows)]))
  fams.append(('random-narrow', [nt.drbg_int('c15n%d-%d-%d' % (seed, nrows, i),
                                             nrows // 2 + 1) for i in range(nrows)]))
  for rk in range(0, 9):
    basis = [nt.drbg_int('c15b%d-%d-%d' % (seed, nrows, i), nrows) | 1 << (nrows + i)
             for i in range(rk)]
    rows = []
    for i in range(nrows):
      sel = nt.drbg_int('c15s%d-%d-%d-%d' % (seed, nrows, rk, i), rk) if rk else 0
      if i < rk:
        sel = 1 << i
      v = 0
      for k in range(rk):
        if (sel >> k) & 1:
          v ^= basis[k]
      rows.append(v)
    fams.append(('rank%d' % rk, rows))
  step = 1 if nrows <= 300 else max(1, nrows // 64)
  for pos in range(0, nrows, step):
    d = list(rnd)
    d[pos] = d[(pos + 1) % nrows]
    fams.append(('dup@%d' % pos, d))
    z = list(rnd)
    z[pos] = 0
    fams.append(('zero@%d' % pos, z))
    x = list(ident)
    x[pos] = ident[(pos + 1) % nrows] ^ ident[(pos + 2) % nrows]
    fams.append(('xor@%d' % pos, x))
  return fams


def case_bigmatrix(nrows, seed, fam):
  for name, rows in _big_matrices(nrows, seed):
    if name == fam:
      return case_matrix(rows)
  return []


def big_matrices(nrows, seed):
  r = Result()
  for name, rows in _big_matrices(nrows, seed):
    exp = rb.rank_gf2(rows)
    bad = case_matrix(rows)
    r.ev('big%d/%s' % (nrows, name.split('@')[0]), 0 < exp < nrows)
    for b in bad:
      r.violation(b, {'fn': 'bigmatrix',
                      'args': {'nrows': nrows, 'seed': seed, 'fam': name}})
  r.sample({'rows': nrows, 'families': 'identity, permutation, random(3 widths), '
            'rank 0..8, duplicate/zero/xor row at every position'})
  return r


# ---- fast-path families --------------------------------------------------

def case_fastpath(length, m, window, pos, background, prims):
  """A (m+k)-bit window content placed at pos (cyclically) on a constant
  background."""
  full = (1 << length) - 1
  seq = full if background else 0
  wl = window.bit_length() if not background else max(window.bit_length(), 1)
  width = m + 4
  for i in range(width):
    bit = (window >> i) & 1
    p = (pos + i) % length
    seq = (seq & ~(1 << p)) | (bit << p)
  return _case_params(seq, length, m, prims)


def _case_params(seq, length, m, prims):
  w = world.load()
  u = w.rt_util
  out = []
  for wrap in (True, False):
    if 'FrequencyCount' in prims:
      _cmp(out, 'FrequencyCount', ('seq', length, m, wrap),
           guarded(u.FrequencyCount, seq, length, m, wrap),
           rb.frequency_count(seq, length, m, wrap))
  if 'SplitSequence' in prims:
    _cmp(out, 'SplitSequence', ('seq', length, m),
         guarded(u.SplitSequence, seq, length, m), rb.split(seq, length, m))
  if out:
    out = ['seq=%#x: %s' % (seq, o) for o in out]
  return out


def fastpath(length, m):
  r = Result()
  for background in (0, 1):
    for pos in range(length):
      for window in range(1 << (m + 4)):
        bad = case_fastpath(length, m, window, pos, background, ['FrequencyCount'])
        r.ev('fast m=%d len%%8=%d' % (m, length % 8))
        for b in bad[:1]:
          r.violation(b, {'fn': 'fastpath',
                          'args': {'length': length, 'm': m, 'window': window,
                                   'pos': pos, 'background': background,
                                   'prims': ['FrequencyCount']}})
      if len(r.violations) > 10:
        break
  r.sample({'length': length, 'm': m, 'windows': 1 << (m + 4), 'positions': length,
            'backgrounds': 2, 'fast_path_taken': 50 * 2**m < length})
  return r


def _long_strings(length, seed):
  yield 'zeros', 0
  yield 'ones', (1 << length) - 1
  yield 'alt', int('01' * (length // 2 + 1), 2) & ((1 << length) - 1)
  yield 'onehot-top', 1 << (length - 1)
  yield 'onehot-bottom', 1
  yield 'drbg', nt.drbg_int('c15long%d-%d' % (seed, length), length)


def case_long(length, seed, name, m, prims):
  for nm, seq in _long_strings(length, seed):
    if nm == name:
      return _case_params(seq, length, m, prims)
  return []


def long_lengths(lengths, ms, seed, prims):
  r = Result()
  for length in lengths:
    for m in ms:
      if m > length:
        continue
      for name, seq in _long_strings(length, seed):
        bad = _case_params(seq, length, m, prims)
        r.ev('long m=%d fast=%s' % (m, 50 * 2**m < length and m < 24),
             name not in ('zeros', 'ones'))
        for b in bad[:1]:
          r.violation(b, {'fn': 'long',
                          'args': {'length': length, 'seed': seed, 'name': name,
                                   'm': m, 'prims': prims}})
  r.sample({'lengths': lengths[:4], 'ms': ms, 'strings': 6, 'prims': prims})
  return r


def split_blocks(seed):
  """SplitSequence for every block size 1..70 on lengths at every residue."""
  r = Result()
  for length in list(range(130, 146)) + [1021, 1024, 1031]:
    for name, seq in _long_strings(length, seed):
      for m in range(1, 71):
        bad = _case_params(seq, length, m, ['SplitSequence'])
        r.ev('split m%%8=%d' % (m % 8), name not in ('zeros', 'ones'))
        for b in bad[:1]:
          r.violation(b, {'fn': 'long',
                          'args': {'length': length, 'seed': seed, 'name': name,
                                   'm': m, 'prims': ['SplitSequence']}})
      # strings with fewer significant bits than length (leading zeros)
      short = seq >> (length // 2)
      for m in (1, 7, 8, 9, 16, 33, 64):
        bad = _case_params(short, length, m, ['SplitSequence'])
        r.ev('split-leading-zeros', True)
        for b in bad[:1]:
          r.violation(b, {'fn': 'params',
                          'args': {'seq': short, 'length': length, 'm': m,
                                   'prims': ['SplitSequence']}})
  r.sample({'lengths': '130..145, 1021, 1024, 1031', 'block_sizes': '1..70'})
  return r


CASES = {
    'string': case_string,
    'matrix': case_matrix,
    'bigmatrix': case_bigmatrix,
    'fastpath': case_fastpath,
    'long': case_long,
    'params': _case_params,
}


def plan(tier, seed):
  thorough = tier == 'thorough'
  L = 18 if thorough else 16
  tasks = []
  for length in range(0, L + 1):
    nparts = max(1, min(64, (1 << length) * max(length, 1)**2 // 60000))
    for part in range(nparts):
      tasks.append(Task('all-strings', 'strings',
                        {'length': length, 'part': part, 'nparts': nparts},
                        bound='every string of every length 0..%d, every m, both '
                        'wrap modes, 11 primitives' % L,
                        weight=(1 << length) * length**2 / nparts))
  for r0 in range(0, 5):
    nparts = 16 if r0 == 4 else 1
    for part in range(nparts):
      tasks.append(Task('all-matrices', 'matrices',
                        {'r0': r0, 'part': part, 'nparts': nparts},
                        bound='every matrix with <=4 rows and <=4 columns, also padded '
                        'to >=50 rows (table-driven path)', weight=16.0**r0 * 4))
  tasks.append(Task('all-matrices', 'matrices_rect', {}, bound='3x5 and 5x3', weight=7e4))
  rowsets = [31, 32, 33, 49, 50, 51, 255, 256, 257]
  if thorough:
    rowsets += [8191, 8192, 8193]
  for nr in rowsets:
    tasks.append(Task('large-matrices', 'big_matrices', {'nrows': nr, 'seed': seed},
                      complete=False,
                      bound='structured families at row counts %s' % rowsets,
                      weight=nr**2.5))
  # FrequencyCount fast path (50*2^m < length)
  fl = {1: list(range(101, 141)) if thorough else list(range(101, 109)) + [99, 100],
        2: list(range(201, 233)) if thorough else list(range(201, 209)) + [199, 200],
        3: list(range(401, 417)) if thorough else [401, 404, 407, 400]}
  for m, lens in fl.items():
    for length in lens:
      tasks.append(Task('freqcount-fastpath', 'fastpath', {'length': length, 'm': m},
                        bound='every (m+4)-bit window at every position, 2 backgrounds; '
                        'lengths %s' % {k: [v[0], v[-1]] for k, v in fl.items()},
                        weight=length * length * 2**(m + 4) * 2))
  big = [2**16 + d for d in range(-9, 10)] if thorough else [2**16 + d for d in range(-1, 8)]
  ms = list(range(1, 11)) if thorough else [1, 7, 10]
  for length in big:
    tasks.append(Task('freqcount-long', 'long_lengths',
                      {'lengths': [length], 'ms': ms, 'seed': seed,
                       'prims': ['FrequencyCount']}, complete=False,
                      bound='lengths 2^16+d at every residue mod 8, m in %s, 6 strings' % ms,
                      weight=3e9 * len(ms)))
  thr = [50 * 2**m + d for m in range(1, 9 if thorough else 7) for d in (0, 1)]
  tasks.append(Task('freqcount-threshold', 'long_lengths',
                    {'lengths': thr, 'ms': list(range(1, 9 if thorough else 7)),
                     'seed': seed, 'prims': ['FrequencyCount']}, complete=False,
                    bound='both sides of 50*2^m = length for m=1..%d' % (8 if thorough else 6),
                    weight=5e8))
  tasks.append(Task('split-blocks', 'split_blocks', {'seed': seed}, complete=False,
                    bound='block sizes 1..70 x lengths at every residue mod 8',
                    weight=1e8))
  return tasks
