"""C17 -- a verdict does not depend on batch neighbours, batch order or earlier
calls."""
import hashlib
import itertools
import json
import os
import subprocess
import sys

from pmc import alpha_rsa, art, gen_ec as G, world
from pmc.core import Result, Task, guarded, isolated
from pmc.props import c16
from pmc.refs import ec as rec

ID = 'C17'
LEVEL = 'model_checking'
LEVEL_TEXT = ('Explicit-state exploration of the library state that survives a call (module '
              'globals, singleton check objects, curve singletons with their cached tables): a '
              'session in one process applies every ordered batch of size <= 3 over the family '
              'alphabet through the singleton checks; the canonical hash of the library state is '
              'taken after every call (RSA: closure = the single post-initialisation state; EC: '
              'the table-size lattice). In every visited state every verdict is compared with the '
              'verdict of the same artifact checked alone in a fresh process (individual checks), '
              'with the verdicts under every permutation and with a healthy artifact added (joint '
              'checks); the comparison is repeated under PYTHONHASHSEED 1 and 2.')
TECHNIQUE = ('explicit-state exploration of reachable library states over call histories on the '
             'real singletons + differential oracle against fresh-process verdicts')
RULE = ('every ordered batch <= 3 over the alphabet x every position x every check, executed in '
        'one session; a state is the canonical hash of all mutable library memory; non-trivial = '
        'batch of >= 2 artifacts or a call that follows another one')
ASSUMPTIONS = ['proto/pybind shims of pmc.world',
               'library-state hash: vars() of every paranoid_crypto.lib module and every object '
               'reachable from them (generic over attribute names); EcCurve._cache (memo k -> k*G) '
               'is verified entry by entry and then dropped from the hash',
               'fresh-process baseline = forked child that purges and re-imports the library']


# ---- canonical hash of everything the library keeps between calls ----------------------------

def _h(obj, seen, depth=0):
  import types
  if depth > 6:
    return 'deep'
  if obj is None or isinstance(obj, (bool, int, float, str, bytes)):
    r = repr(obj)
    return r if len(r) < 80 else hashlib.sha256(r.encode()).hexdigest()[:16]
  if id(obj) in seen:
    return 'cycle'
  if isinstance(obj, (types.ModuleType, types.FunctionType, types.BuiltinFunctionType, type,
                      types.MethodType)):
    return 'code'
  tn = type(obj).__name__
  if tn in ('mpz', 'mpq'):
    return 'mpz:' + hashlib.sha256(str(obj).encode()).hexdigest()[:16]
  seen = seen | {id(obj)}
  if isinstance(obj, dict):
    if len(obj) > 5000:
      # large tables: size + the first 3000 items in insertion order (construction is
      # deterministic, so equal tables have equal prefixes)
      items = list(itertools.islice(obj.items(), 3000))
      return 'bigdict:%d:%s' % (len(obj), hashlib.sha256(repr(items).encode()).hexdigest()[:16])
    return 'dict:' + hashlib.sha256(repr(sorted(
        (_h(k, seen, depth + 1), _h(v, seen, depth + 1)) for k, v in obj.items())).encode()
                                    ).hexdigest()[:16]
  if isinstance(obj, (list, tuple)):
    if len(obj) > 2000:
      return 'bigseq:%d:%s' % (len(obj), hashlib.sha256(repr(obj).encode()).hexdigest()[:16])
    return 'seq:' + hashlib.sha256(repr([_h(v, seen, depth + 1) for v in obj]).encode()
                                   ).hexdigest()[:16]
  if isinstance(obj, (set, frozenset)):
    return 'set:%d:%s' % (len(obj), hashlib.sha256(repr(sorted(repr(v) for v in obj)).encode()
                                                   ).hexdigest()[:16])
  if hasattr(obj, '__dict__'):
    d = dict(vars(obj))
    if tn == 'EcCurve':
      d.pop('_cache', None)
    return '%s:%s' % (tn, _h(d, seen, depth + 1))
  return tn


def lib_state(w):
  parts = []
  for name in sorted(sys.modules):
    if not name.startswith('paranoid_crypto.lib') or name.endswith('_pb2'):
      continue
    mod = sys.modules[name]
    if mod is None or 'unseeded_rands' in name or 'lcg_constants' in name:
      continue
    for k in sorted(vars(mod)):
      if k.startswith('__'):
        continue
      v = vars(mod)[k]
      hv = _h(v, frozenset())
      if hv != 'code':
        parts.append('%s.%s=%s' % (name, k, hv))
  return hashlib.sha256('\n'.join(parts).encode()).hexdigest()[:16]


def verify_curve_caches(w):
  """Every memo entry k -> k*G of every curve must be right (then it cannot change futures)."""
  bad = []
  for cid, L in w.ec_util.CURVE_FACTORY.items():
    if L is None:
      continue
    for k, P in list(L._cache.items())[:400]:  # pylint: disable=protected-access
      if rec.rp(P) != G.gmul(int(cid), int(k)):
        bad.append('curve %s memo entry %d is not %d*G' % (L.name, k, k))
  return bad


# ---- builders ----------------------------------------------------------------------------------

RSA_ALPHA = ['strong-2048', 'fermat-128', 'shared-a', 'shared-b', 'bit-pattern-2048',
             'keypair-2048', 'unseeded-1024', 'nm1-a', 'nm1-b', 'permuted-pattern-1024']
JOINT = {'rsa': ['CheckGCD', 'CheckGCDN1'], 'ec': ['CheckECKeySmallDifference'],
         'ecdsa': ['CheckLCGNonceGMP', 'CheckLCGNonceJavaUtilRandom', 'CheckNonceMSB',
                   'CheckNonceCommonPrefix', 'CheckNonceCommonPostfix', 'CheckNonceGeneralized',
                   'CheckCr50U2f']}


def _make(family, names):
  if family == 'rsa':
    return c16._rsa_artifacts(names)  # pylint: disable=protected-access
  if family == 'ec':
    return [c16._ec_artifact(n) for n in names]  # pylint: disable=protected-access
  return c16._sig_artifacts(names)  # pylint: disable=protected-access


def _singletons(w, family):
  return {'rsa': w.paranoid.GetRSAAllChecks, 'ec': w.paranoid.GetECAllChecks,
          'ecdsa': w.paranoid.GetECDSAAllChecks}[family]()


def _verdict(a, check):
  """(entry, evidence) of one artifact for one check, parsed."""
  ti = a.test_info
  e = art.entry(ti, check)
  ev = {}
  for rec_ in ti.attached_info:
    v = rec_.value
    if rec_.info_name in ('N_FACTORS', 'N-1_FACTORS'):
      v = sorted(art.factors(ti, rec_.info_name))
    ev[rec_.info_name] = v
  return [e, ev]


_batch_base = {}


def _batch_fresh(family, batch, cname):
  """Verdicts of a whole batch for one (joint) check in a freshly imported library."""
  key = (family, tuple(batch), cname)
  if key not in _batch_base:
    def run():
      w = world.fresh_world()
      a = _make(family, batch)
      _singletons(w, family)[cname].Check(a)
      return [_verdict(x, cname) for x in a]
    st, res = isolated(run)
    if st != 'ok':
      raise RuntimeError('batch baseline failed: %s %s' % (st, res))
    _batch_base[key] = res
  return _batch_base[key]


def _alone_all(family, name, skip):
  """In a forked child with a freshly imported library: every check on [X] alone."""
  def run():
    w = world.fresh_world()
    out = {}
    for cname, chk in _singletons(w, family).items():
      if cname in skip:
        continue
      a = _make(family, [name])
      chk.Check(a)
      out[cname] = _verdict(a[0], cname)
    return out
  st, res = isolated(run)
  if st != 'ok':
    raise RuntimeError('baseline for %s failed: %s %s' % (name, st, res))
  return res


# ---- the session ---------------------------------------------------------------------------------

def case_session(family, batches, skip):
  """Replays a session (list of batches) in this process; returns violation texts."""
  r = session(family, batches, skip, alphabet=None)
  return [v['what'] for v in r.violations]


def session(family, batches, skip, alphabet=None):
  w = world.fresh_world()
  r = Result()
  names = sorted({n for b in batches for n in b})
  base = {n: _alone_all(family, n, skip) for n in names}
  checks = _singletons(w, family)
  states = {}
  s0 = lib_state(w)
  states[s0] = 0
  hist = []
  flagged_fresh = {(n, c): bool(base[n][c][0] and base[n][c][0][0]) for n in names
                   for c in base[n]}
  for bi, batch in enumerate(batches):
    for cname, chk in checks.items():
      if cname in skip:
        continue
      arts = _make(family, batch)
      st, ret = guarded(chk.Check, arts)
      hist.append((cname, batch))
      r.transitions += 1
      case = {'fn': 'session', 'args': {'family': family, 'batches': batches[:bi + 1],
                                        'skip': sorted(skip)}}
      if st == 'exc':
        r.violation('%s on batch %s raised %s after %d earlier calls' % (cname, batch, ret,
                                                                         len(hist) - 1), case)
        continue
      s = lib_state(w)
      states[s] = states.get(s, 0) + 1
      joint = cname in JOINT[family]
      if joint and cname != 'CheckECKeySmallDifference' and len(batch) <= 3:
        fb = _batch_fresh(family, batch, cname)
        got = [_verdict(a, cname) for a in arts]
        if got != fb:
          r.violation('%s: batch %s (call #%d of the session) got %r; the same batch in a fresh '
                      'process gets %r' % (cname, batch, len(hist), got, fb), case)
      for pos, (n, a) in enumerate(zip(batch, arts)):
        v = _verdict(a, cname)
        b = base[n][cname]
        r.ev('%s/%s' % (family, 'joint' if joint else 'individual'), len(batch) > 1 or bi > 0)
        if not joint:
          if v != b:
            r.violation('%s: artifact %s at position %d of batch %s (call #%d of the session) '
                        'got %r; checked alone in a fresh process it gets %r' %
                        (cname, n, pos, batch, len(hist), v, b), case)
        else:
          if flagged_fresh[(n, cname)] and not (v[0] and v[0][0]):
            r.violation('%s: artifact %s is flagged when checked alone in a fresh process but '
                        'not at position %d of batch %s (call #%d)' % (cname, n, pos, batch,
                                                                      len(hist)), case)
      if len(r.violations) > 8:
        break
    if len(r.violations) > 8:
      break
  bad = verify_curve_caches(w)
  for b in bad[:2]:
    r.violation(b, {'fn': 'session', 'args': {'family': family, 'batches': batches,
                                              'skip': sorted(skip)}})
  r.states = len(states)
  r.extra['library_states_%s' % family] = len(states)
  r.sample({'family': family, 'session_batches': len(batches), 'first': batches[:3],
            'library_states_seen': len(states), 'calls': len(hist)})
  return r


def _ordered_batches(alpha, maxlen, stride=1, offset=0):
  out = []
  for k in range(1, maxlen + 1):
    for i, p in enumerate(itertools.permutations(alpha, k)):
      if k < 3 or i % stride == offset % stride:
        out.append(list(p))
  return out


# ---- joint checks: permutations and healthy additions ----------------------------------------------

def case_joint(family, check, batch, healthy):
  w = world.load()
  chk = _singletons(w, family)[check]
  ref = _make(family, batch)
  st, ret = guarded(chk.Check, ref)
  if st == 'exc':
    return ['%s on %s raised %s' % (check, batch, ret)]
  refv = {n: _verdict(a, check) for n, a in zip(batch, ref)}
  out = []
  for perm in itertools.permutations(range(len(batch))):
    pb = [batch[i] for i in perm]
    arts = _make(family, pb)
    chk.Check(arts)
    for n, a in zip(pb, arts):
      v = _verdict(a, check)
      if bool(v[0] and v[0][0]) != bool(refv[n][0] and refv[n][0][0]):
        out.append('%s: verdict of %s changes from %r to %r when batch %s is permuted to %s' %
                   (check, n, refv[n][0], v[0], batch, pb))
        return out
  for pos in range(len(batch) + 1):
    hb = batch[:pos] + [healthy] + batch[pos:]
    arts = _make(family, hb)
    chk.Check(arts)
    for n, a in zip(hb, arts):
      if n == healthy:
        continue
      v = _verdict(a, check)
      if bool(v[0] and v[0][0]) != bool(refv[n][0] and refv[n][0][0]):
        out.append('%s: verdict of %s changes from %r to %r when the healthy artifact %s is '
                   'inserted at position %d of %s' % (check, n, refv[n][0], v[0], healthy, pos,
                                                      batch))
        return out
  return out


def joint(family, check, batches, healthy):
  r = Result()
  for b in batches:
    bad = case_joint(family, check, b, healthy)
    r.ev('joint/%s' % check, True)
    r.transitions += 1
    for x in bad:
      r.violation(x, {'fn': 'joint', 'args': {'family': family, 'check': check, 'batch': b,
                                              'healthy': healthy}})
  r.states += 1
  r.sample({'joint_check': check, 'batches': batches[:3], 'all_permutations': True,
            'healthy_inserted_at_every_position': healthy})
  return r


# ---- PYTHONHASHSEED (string-set iteration order) ------------------------------------------------------

def _hashseed_payload():
  w = world.load()
  out = {}
  for batch in (['fermat-128', 'shared-a', 'shared-b'], ['shared-b', 'keypair-2048', 'shared-a'],
                ['bit-pattern-2048', 'fermat-128'], ['2^64', 'smooth', '2p-65'], ['nested', 'shared-a']):
    arts = _make('rsa', batch)
    w.paranoid.CheckAllRSA(arts)
    w.paranoid.CheckAllRSA(arts)  # second application: factor sets are merged through strings
    out['|'.join(batch)] = [art.info_canon(a.test_info) for a in arts]
  return out


def hashseeds(seeds):
  r = Result()
  ref = None
  for hs in seeds:
    env = dict(os.environ, PYTHONHASHSEED=str(hs), PYTHONDONTWRITEBYTECODE='1')
    p = subprocess.run([sys.executable, '-c',
                        'import json,sys; sys.path.insert(0, %r); from pmc.props import c17; '
                        'print("PAYLOAD" + json.dumps(c17._hashseed_payload()))' %
                        world.VERIF], env=env, capture_output=True, text=True, cwd=world.VERIF)
    line = [l for l in p.stdout.splitlines() if l.startswith('PAYLOAD')]
    r.transitions += 1
    if not line:
      r.violation('session under PYTHONHASHSEED=%d failed: %s' % (hs, p.stderr[-300:]),
                  {'fn': 'hashseed', 'args': {'hs': hs}})
      continue
    cur = json.loads(line[0][7:])
    r.ev('hashseed/%d' % hs, True)
    if ref is None:
      ref = cur
    elif cur != ref:
      diff = [k for k in ref if ref[k] != cur.get(k)]
      r.violation('parsed verdicts differ between PYTHONHASHSEED=%d and %d for batches %s' %
                  (seeds[0], hs, diff), {'fn': 'hashseed', 'args': {'hs': hs}})
  r.states += 1
  r.sample({'hash_seeds': seeds, 'batches': 3, 'compared': 'parsed test_info of every artifact'})
  return r


def case_hashseed(hs):
  r = hashseeds([0, hs])
  return [v['what'] for v in r.violations]


CASES = {'session': case_session, 'joint': case_joint, 'hashseed': case_hashseed}


def plan(tier, seed):
  thorough = tier == 'thorough'
  T = []
  # RSA: one long session over all ordered batches (split in 4 sessions with different orders)
  bs = _ordered_batches(RSA_ALPHA, 3, 1 if thorough else 12, seed)
  nsess = 8
  for i in range(nsess):
    part = bs[i::nsess]
    if i % 2:
      part = part[::-1]
    T.append(Task('rsa-sessions', 'session', {'family': 'rsa', 'batches': part, 'skip': []},
                  bound='every ordered batch <= 3 over 10 RSA keys (quick: every 12th triple) through '
                  'the 17 singleton checks, in 8 sessions', weight=len(part) * 3e6))
  for chk in JOINT['rsa']:
    T.append(Task('joint-permutations', 'joint',
                  {'family': 'rsa', 'check': chk, 'healthy': 'strong-2048',
                   'batches': [list(c) for k in (1, 2, 3) for c in itertools.combinations(
                       ['fermat-128', 'shared-a', 'shared-b', 'nm1-a', 'nm1-b'], k)]},
                  bound='all permutations of every subset <= 3 (4 for ECDSA issuers) + a healthy '
                  'artifact inserted at every position', weight=2e7))
  # EC: sessions that move through the table-size lattice (no two keys on one curve with the
  # default 2^24 table here: that is the memory-heavy session below)
  ec_alpha = ['healthy-256', 'small-192', 'unknown', 'invalid-384', 'small-256k1', 'healthy-224']
  ebs = _ordered_batches(ec_alpha, 3, 1 if thorough else 12, seed)
  for i in range(6):
    part = ebs[i::6]
    T.append(Task('ec-sessions', 'session', {'family': 'ec', 'batches': part, 'skip': []},
                  bound='every ordered batch <= 3 over 6 EC keys on distinct curves (quick: every '
                  '12th triple) through the 4 singleton checks; table-size lattice', weight=len(part) * 4e8))
  same = [['small-192', 'healthy-192'], ['healthy-192', 'small-192'], ['healthy-256', 'small-256'],
          ['rep-256', 'healthy-256', 'small-256'], ['small-256', 'rep-256'], ['healthy-192'],
          ['small-256', 'healthy-256', 'rep-256']]
  T.append(Task('ec-same-curve-sessions', 'session',
                {'family': 'ec', 'batches': same, 'skip': ['CheckECKeySmallDifference']},
                bound='weak and healthy keys on one curve in one batch (private-key search is '
                'batched per curve); the difference check is left to the 2^24-table session',
                weight=5e9))
  heavy = [['healthy-256', 'near-256'], ['near-256'], ['near-256', 'healthy-256'],
           ['healthy-256'], ['healthy-256', 'unknown', 'near-256'], ['small-192', 'healthy-256']]
  T.append(Task('ec-default-table-session', 'session',
                {'family': 'ec', 'batches': heavy, 'skip': []}, mem_heavy=True,
                bound='session with two keys on one curve: the 2^24 table is built by the '
                'difference check and then shared with the private-key search', weight=1e10))
  T.append(Task('joint-permutations', 'joint',
                {'family': 'ec', 'check': 'CheckECKeySmallDifference', 'healthy': 'healthy-224',
                 'batches': [['healthy-256', 'near-256'], ['healthy-256', 'near-256', 'unknown']]},
                mem_heavy=True, bound='', weight=1e10))
  # ECDSA
  sig_alpha = ['healthy', 'biased1', 'biased2', 'biased3', 'sameissuer', 'weakissuer']
  sbs = [['biased1', 'biased2', 'biased3'], ['healthy'], ['biased3', 'healthy', 'biased1',
                                                        'biased2'],
         ['weakissuer', 'biased2', 'biased1', 'sameissuer', 'biased3'], ['sameissuer'],
         ['healthy', 'weakissuer']]
  skip_java = [] if thorough else ['CheckLCGNonceJavaUtilRandom']
  T.append(Task('ecdsa-sessions', 'session', {'family': 'ecdsa', 'batches': sbs,
                                              'skip': skip_java},
                bound='6 signature batches through the singleton ECDSA checks in one session',
                weight=3e9))
  T.append(Task('ecdsa-sessions', 'session', {'family': 'ecdsa', 'batches': sbs[::-1],
                                              'skip': skip_java}, bound='', weight=3e9))
  for chk in ('CheckNonceMSB', 'CheckNonceCommonPrefix', 'CheckCr50U2f', 'CheckLCGNonceGMP'):
    T.append(Task('joint-permutations', 'joint',
                  {'family': 'ecdsa', 'check': chk, 'healthy': 'healthy',
                   'batches': [['biased1', 'biased2', 'biased3'],
                               ['biased1', 'biased2', 'biased3', 'sameissuer'],
                               ['weakissuer', 'biased1']]}, bound='', weight=5e8))
  T.append(Task('hash-seeds', 'hashseeds', {'seeds': [0, 1, 2]},
                bound='PYTHONHASHSEED in {0,1,2}: parsed annotations of 3 RSA batches (entry '
                'point applied twice)', weight=5e7))
  return T
