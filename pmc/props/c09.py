"""C09 -- the nonce relation extracted from any ECDSA signature is exact."""
import itertools

from pmc import art, world
from pmc.core import Result, Task, guarded
from pmc.refs import ec as rec
from pmc.refs import nt

ID = 'C09'
LEVEL = 'model_checking'
LEVEL_TEXT = ('Explicit-state exploration of the complete signing space of tiny '
              'prime-order curves: every (d, k, z) is signed with a schoolbook reference '
              'and the pair (a, b) the library derives must satisfy k = a + b*d mod n; '
              'every order length x every hash byte length 0..64 x a hash alphabet '
              '(all 1- and 2-byte hashes on tiny curves) against RFC 6979 bits2int; '
              'all ints < 2^17 / all byte strings <= 2 bytes / all hex strings <= 5 '
              'digits through the conversions.')
TECHNIQUE = ('explicit enumeration of the complete (private key, nonce, hash) space of '
             'tiny curves on the real code vs. reference signer (M1)')
RULE = ('every (d,k,z) with r,s != 0 on each tiny curve; every (order length, hash '
        'length, hash pattern); every small int / byte string / hex string; distinct '
        'by construction; non-trivial = hash longer than the order (truncation active), '
        'or leading-zero encodings, or any signing triple')
ASSUMPTIONS = ['proto/pybind shims of pmc.world', 'reference signer over pmc/refs/ec.py',
               'RFC 6979 section 2.3.2 bits2int transcribed independently']


def bits2int_mod(hbytes, n):
  """RFC 6979 2.3.2 then reduction mod n."""
  qlen = n.bit_length()
  v = int.from_bytes(hbytes, 'big')
  hlen = 8 * len(hbytes)
  if hlen > qlen:
    v >>= hlen - qlen
  return v % n


def _tiny(seed, thorough):
  off = seed % 3
  cs = []
  shapes = ('a-3', 'a0', 'generic')
  for i, pmin in enumerate((11, 23, 43, 71, 97) + ((113, 131) if thorough else ())):
    for j in range(3 if thorough else 1):
      cs += list(rec.tiny_curves(pmin, 260, shapes[(i + j + seed) % 3], 1, 1, off))
  out, seen = [], set()
  for c in cs:
    if c.name not in seen and 11 <= c.n <= 160:
      seen.add(c.name)
      out.append(c)
  return out


def _spec(c):
  return {'p': c.p, 'a': c.a_literal, 'b': c.b, 'gx': c.g[0], 'gy': c.g[1], 'n': c.n}


def _from_spec(s):
  c = rec.Curve(s['p'], s['a'], s['b'], (s['gx'], s['gy']), s['n'], 1, 'tiny')
  c.a_literal = s['a']
  return c


_mulcache = {}


def _gmul(c, k):
  key = (c.p, c.a, c.b, c.g, k)
  if key not in _mulcache:
    if len(_mulcache) > 10000:
      _mulcache.clear()
    _mulcache[key] = c.mul(c.g, k)
  return _mulcache[key]


def sign(c, d, k, z):
  R = _gmul(c, k)
  if R is None:
    return None
  r = R[0] % c.n
  if r == 0:
    return None
  s = pow(k, -1, c.n) * (z + r * d) % c.n
  if s == 0:
    return None
  return r, s


def case_relation(curve, d, k, z):
  w = world.load()
  c = _from_spec(curve)
  L = rec.to_lib(c, w.ec_util)
  sg = sign(c, d, k, z)
  if sg is None:
    return []
  r, s = sg
  st, ab = guarded(L.HiddenNumberParams, r, s, z)
  if st == 'exc':
    return ['HiddenNumberParams(%d,%d,%d) raised %s' % (r, s, z, ab)]
  a, b = int(ab[0]), int(ab[1])
  if (a + b * d - k) % c.n:
    return ['HiddenNumberParams(r=%d, s=%d, z=%d) = (%d, %d) on order %d: a + b*d = %d '
            'but the nonce is %d (d=%d)' % (r, s, z, a, b, c.n, (a + b * d) % c.n, k, d)]
  return []


def signing_space(curve):
  w = world.load()
  c = _from_spec(curve)
  L = rec.to_lib(c, w.ec_util)
  r_ = Result()
  n = c.n
  kr = {k: c.mul(c.g, k)[0] % n for k in range(1, n)}
  for d in range(1, n):
    for k in range(1, n):
      r = kr[k]
      if r == 0:
        continue
      ki = pow(k, -1, n)
      for z in range(n):
        s = ki * (z + r * d) % n
        if s == 0:
          continue
        a, b = L.HiddenNumberParams(r, s, z)
        r_.transitions += 1
        if (a + b * d - k) % n:
          r_.violation('HiddenNumberParams(r=%d,s=%d,z=%d)=(%d,%d) on order %d: nonce %d, '
                       'd=%d' % (r, s, z, a, b, n, k, d),
                       {'fn': 'relation', 'args': {'curve': curve, 'd': d, 'k': k, 'z': z}})
          if len(r_.violations) > 5:
            return r_
  r_.states += (n - 1) * (n - 1)
  r_.ev('signing n=%d' % n, True, r_.transitions)
  r_.sample({'curve': curve, 'space': '(d,k,z) in [1,n-1]^2 x [0,n)'})
  return r_


def _hash_alphabet(hl, seed):
  if hl == 0:
    return [b'']
  return [b'\xff' * hl, b'\x80' + b'\x00' * (hl - 1), b'\x00' * (hl - 1) + b'\x01',
          b'\x00' * hl, b'\x01' + b'\xff' * (hl - 1), nt.drbg('c09h%d-%d' % (seed, hl), hl),
          b'\x00' + nt.drbg('c09z%d-%d' % (seed, hl), hl - 1)]


def _curve_by_key(key):
  """key: ['named', id] or ['tiny', spec]."""
  w = world.load()
  if key[0] == 'named':
    return w.ec_util.CURVE_FACTORY[key[1]]
  return rec.to_lib(_from_spec(key[1]), w.ec_util)


def case_transform(key, hhex):
  L = _curve_by_key(key)
  hb = bytes.fromhex(hhex)
  n = int(L.n)
  exp = bits2int_mod(hb, n)
  out = []
  st, got = guarded(L.TransformOrderLen, int.from_bytes(hb, 'big'), 8 * len(hb))
  if st == 'exc' or int(got) != exp:
    out.append('TransformOrderLen(h=%s, hlen=%d) on a %d-bit order = %r, RFC 6979 '
               'bits2int mod n = %d' % (hhex or "''", 8 * len(hb), n.bit_length(), got, exp))
  return out


def transform(key, seed, all_short):
  r = Result()
  L = _curve_by_key(key)
  n = int(L.n)
  qb = n.bit_length()
  hashes = []
  for hl in range(0, 65):
    hashes += _hash_alphabet(hl, seed)
  if all_short:
    hashes += [bytes([x]) for x in range(256)]
    hashes += [bytes([x, y]) for x in range(256) for y in range(256)]
    hashes += [bytes([x, y, 0x5a]) for x in range(0, 256, 5) for y in range(0, 256, 7)]
  for hb in hashes:
    bad = case_transform(key, hb.hex())
    hl = 8 * len(hb)
    r.ev('qlen=%d/%s' % (qb, 'longer' if hl > qb else ('equal' if hl == qb else 'shorter')),
         hl > qb)
    r.transitions += 1
    for b in bad:
      r.violation(b, {'fn': 'transform', 'args': {'key': key, 'hhex': hb.hex()}})
  r.states += 65
  r.sample({'order_bits': qb, 'hash_lengths': '0..64 bytes', 'hashes': len(hashes)})
  return r


def case_pipeline(key, d, k, hhex, lead):
  """reference-sign, encode as proto (with `lead` leading zero bytes in r and s),
  decode with ECDSAValues + HiddenNumberParams."""
  w = world.load()
  L = _curve_by_key(key)
  c = rec.Curve(int(L.mod), int(L.a), int(L.b), (int(L.g[0]), int(L.g[1])), int(L.n))
  hb = bytes.fromhex(hhex)
  z = bits2int_mod(hb, c.n)
  sg = sign(c, d, k, z)
  if sg is None:
    return []
  r, s = sg
  Q = _gmul(c, d)
  sig = art.ecdsa_sig(key[1] if key[0] == 'named' else 0, Q[0], Q[1], r, s, hb, lead=lead)
  out = []
  st, vals = guarded(w.ec_util.ECDSAValues, sig.ecdsa_sig_info, L)
  if st == 'exc':
    return ['ECDSAValues raised %s' % vals]
  if (int(vals[0]), int(vals[1]), int(vals[2])) != (r, s, z):
    out.append('ECDSAValues(r=%s, s=%s, hash=%s) = %r, expected (%d, %d, %d)' %
               (sig.ecdsa_sig_info.r.hex(), sig.ecdsa_sig_info.s.hex(), hhex,
                tuple(int(v) for v in vals), r, s, z))
    return out
  a, b = L.HiddenNumberParams(*vals)
  if (int(a) + int(b) * d - k) % c.n:
    out.append('order %d bits, hash %d bytes: k != a + b*d (d=%d, k=%d)' %
               (c.n.bit_length(), len(hb), d, k))
  return out


def pipeline_tiny(curve, seed):
  r = Result()
  c = _from_spec(curve)
  key = ['tiny', curve]
  n = c.n
  dks = [(1, n - 1), (n - 1, 1), (2, 3), (n // 2, n // 3 + 1)]
  hashes = [b''] + [bytes([x]) for x in range(256)] + \
      [bytes([x, y]) for x in range(256) for y in range(0, 256, 7)]
  for (d, k), lead in itertools.product(dks, (0, 1, 3)):
    for hb in hashes:
      bad = case_pipeline(key, d, k, hb.hex(), lead)
      r.ev('tiny-pipeline lead=%d' % lead, True)
      r.transitions += 1
      for b in bad[:1]:
        r.violation(b, {'fn': 'pipeline', 'args': {'key': key, 'd': d, 'k': k,
                                                   'hhex': hb.hex(), 'lead': lead}})
    if len(r.violations) > 5:
      break
  r.sample({'curve': curve, 'dk': dks, 'hashes': len(hashes), 'leading_zero_bytes': [0, 1, 3]})
  return r


def pipeline_named(cid, seed):
  r = Result()
  w = world.load()
  L = w.ec_util.CURVE_FACTORY[cid]
  n = int(L.n)
  key = ['named', cid]
  dks = [(1, 1), (n - 1, n - 1), (1, n - 1),
         (nt.drbg_int('c09d%d-%d' % (seed, cid), n.bit_length()) % (n - 1) + 1,
          nt.drbg_int('c09k%d-%d' % (seed, cid), n.bit_length()) % (n - 1) + 1),
         (nt.drbg_int('c09d2%d-%d' % (seed, cid), 32) + 1,
          nt.drbg_int('c09k2%d-%d' % (seed, cid), n.bit_length() - 40) + 1)]
  for d, k in dks:
    for hl in range(0, 65):
      for hb in _hash_alphabet(hl, seed)[:2] + _hash_alphabet(hl, seed)[5:]:
        lead = hl % 3
        bad = case_pipeline(key, d, k, hb.hex(), lead)
        r.ev('named-pipeline %s' % ('longer' if 8 * hl > n.bit_length() else 'not-longer'))
        r.transitions += 1
        for b in bad[:1]:
          r.violation(b, {'fn': 'pipeline', 'args': {'key': key, 'd': d, 'k': k,
                                                     'hhex': hb.hex(), 'lead': lead}})
  r.states += len(dks) * 65
  r.sample({'named_curve': L.name, 'dk_pairs': len(dks), 'hash_lengths': '0..64'})
  return r


def case_conv(kind, v):
  w = world.load()
  u = w.util
  out = []
  if kind == 'int':
    import gmpy2
    for x in (v, gmpy2.mpz(v)):
      st, b = guarded(u.Int2Bytes, x)
      exp = int(v).to_bytes((int(v).bit_length() + 7) // 8, 'big')
      if st == 'exc' or b != exp:
        out.append('Int2Bytes(%r) = %r, expected %r' % (x, b, exp))
      elif u.Bytes2Int(b) != v:
        out.append('Bytes2Int(Int2Bytes(%d)) = %d' % (v, u.Bytes2Int(b)))
  elif kind == 'bytes':
    b = bytes.fromhex(v)
    st, x = guarded(u.Bytes2Int, b)
    if st == 'exc' or x != int.from_bytes(b, 'big'):
      out.append('Bytes2Int(%s) = %r' % (v, x))
    elif u.Int2Bytes(x) != b.lstrip(b'\x00'):
      out.append('Int2Bytes(Bytes2Int(%s)) = %r' % (v, u.Int2Bytes(x)))
  elif kind == 'hex':
    st, b = guarded(u.Hex2Bytes, v)
    exp = bytes.fromhex(v if len(v) % 2 == 0 else '0' + v)
    if st == 'exc' or b != exp:
      out.append('Hex2Bytes(%r) = %r, expected %r' % (v, b, exp))
  return out


def conversions(part):
  r = Result()
  if part == 0:
    for v in list(range(0, 1 << 17)) + [2**k + d for k in (31, 32, 63, 64, 255, 256, 520, 521)
                                        for d in (-1, 0, 1)]:
      for b in case_conv('int', v):
        r.violation(b, {'fn': 'conv', 'args': {'kind': 'int', 'v': v}})
      r.ev('int', v.bit_length() % 8 == 0)
  elif part == 1:
    bs = [b''] + [bytes([x]) for x in range(256)] + \
        [bytes([x, y]) for x in range(256) for y in range(256)] + \
        [bytes([0, 0, x]) for x in range(256)]
    for bb in bs:
      for b in case_conv('bytes', bb.hex()):
        r.violation(b, {'fn': 'conv', 'args': {'kind': 'bytes', 'v': bb.hex()}})
      r.ev('bytes', bb[:1] == b'\x00')
  else:
    digits = '0123456789abcdefABCDEF'
    for ln in range(0, 5):
      for tup in itertools.product(digits if ln <= 3 else '019afAF', repeat=ln):
        h = ''.join(tup)
        for b in case_conv('hex', h):
          r.violation(b, {'fn': 'conv', 'args': {'kind': 'hex', 'v': h}})
        r.ev('hex', ln % 2 == 1)
  r.transitions += r.evaluations
  r.states += 1
  r.sample({'conversions_part': ['ints 0..2^17 (+mpz)', 'byte strings <=2', 'hex strings <=4'][part]})
  return r


CASES = {'relation': case_relation, 'transform': case_transform,
         'pipeline': case_pipeline, 'conv': case_conv}


def plan(tier, seed):
  thorough = tier == 'thorough'
  tasks = []
  tiny = _tiny(seed, thorough)
  for c in tiny:
    if c.n <= (160 if thorough else 110):
      tasks.append(Task('tiny-signing-space', 'signing_space', {'curve': _spec(c)},
                        bound='all (d,k,z) on tiny curves of order 11..%d' %
                        (160 if thorough else 110), weight=c.n**3))
    tasks.append(Task('tiny-pipeline', 'pipeline_tiny', {'curve': _spec(c), 'seed': seed},
                      bound='proto -> ECDSAValues -> HiddenNumberParams; all 1-byte and every '
                      '7th 2-byte hash, leading zero bytes in r,s', weight=5e5))
    tasks.append(Task('transform-order-len', 'transform',
                      {'key': ['tiny', _spec(c)], 'seed': seed, 'all_short': True},
                      bound='order lengths 4..8 bits (tiny) and all named curves x hash '
                      'lengths 0..64 bytes x 7 patterns; all 1-/2-byte hashes on tiny curves',
                      weight=3e5))
  w = world.load()
  for cid, L in w.ec_util.CURVE_FACTORY.items():
    if L is None:
      continue
    tasks.append(Task('transform-order-len', 'transform',
                      {'key': ['named', int(cid)], 'seed': seed, 'all_short': False},
                      bound='', weight=1e4))
    tasks.append(Task('named-pipeline', 'pipeline_named', {'cid': int(cid), 'seed': seed},
                      complete=False,
                      bound='5 (d,k) pairs incl. 1 and n-1 x hash lengths 0..64 x 4 patterns',
                      weight=5e6))
  for part in range(3):
    tasks.append(Task('conversions', 'conversions', {'part': part},
                      bound='all ints < 2^17 (int and mpz), all byte strings <= 2 bytes, all '
                      'hex strings <= 3 digits (+7-symbol alphabet at 4)', weight=2e5))
  return tasks
