"""C14 -- linear complexity is the true shortest-LFSR length in every
implementation (C++ clmul build, C++ portable build, pure Python, wrapper)."""
import os
import subprocess
import sys

from pmc import world
from pmc.core import Result, Task, guarded, isolated
from pmc.refs import lfsr, nt

ID = 'C14'
LEVEL = 'exploration'
LEVEL_TEXT = ('Bounded-exhaustive exploration: every bit sequence of every length '
              '0..20 (22 thorough) through the two C++ builds compiled from the working '
              'tree (stand-alone driver process), LinearComplexityNative and the '
              'LinearComplexity wrapper (both builds), each compared with a '
              'definition-level shortest-LFSR search; complete structured families '
              '(one-hot, two-hot, periodic, all LFSRs of degree <=6 with one flipped '
              'bit) at lengths around every 64-bit word boundary; closed-form counts vs '
              'the measured histogram.')
TECHNIQUE = ('bounded-exhaustive enumeration of all short sequences x 4 implementations '
             '(environment-answer enumeration over compile-time variants) vs. '
             'definition-level reference (stateless model checking, M1/M3)')
RULE = ('every sequence of every length <= bound x {clmul driver, portable driver, '
        'LinearComplexityNative, LinearComplexity wrapper over both builds}; distinct '
        'by construction; non-trivial = complexity differs from 0 and from n '
        '(families: all members counted)')
ASSUMPTIONS = ['proto/pybind shims of pmc.world; the 23-line pybind glue is replaced by a '
               'ctypes wrapper around LfsrLengthStr',
               'definition-level reference pmc/refs/lfsr.py (GF(2) elimination); '
               'textbook Massey used beyond n=20 only after agreeing with it on the '
               'complete n<=12 space in the same run',
               'g++ -O2 with/without -mpclmul -D__CLMUL__']


def _driver(variant, lines):
  """Feeds 'n hex' records to the stand-alone driver. Returns (results,
  died_text)."""
  exe = world.build_native(variant, kind='driver')
  p = subprocess.run([exe], input='\n'.join(lines) + '\n', capture_output=True,
                     text=True)
  out = [int(x) for x in p.stdout.split()]
  died = None
  if p.returncode != 0:
    died = 'driver exited with %d (%s)' % (
        p.returncode, 'signal %d' % -p.returncode if p.returncode < 0 else 'status')
  return out, died


def _rec(s, n):
  return '%d %s' % (n, int(s).to_bytes((n + 7) // 8, 'little').hex())


def _wrapper_block(variant, seqs):
  """Runs in a forked child: the LinearComplexity wrapper over one build."""
  w = world.load()
  mod = sys.modules[
      'paranoid_crypto.lib.randomness_tests.cc_util.pybind.berlekamp_massey']
  mod.LfsrLength = world.native_lfsr(variant)
  return [w.bm.LinearComplexity(s, n) for s, n in seqs]


def check_block(seqs, refs, r, casefn, want_wrapper=True):
  """seqs: list of (s, n); refs: expected lengths. Compares all
  implementations. casefn(i) -> replay case for element i."""
  w = world.load()
  lines = [_rec(s, n) for s, n in seqs]
  for variant in ('clmul', 'portable'):
    out, died = _driver(variant, lines)
    if died or len(out) != len(seqs):
      i = min(len(out), len(seqs) - 1)
      r.violation('C++ %s build: %s on input #%d = (s=%#x, n=%d) instead of returning '
                  'a length' % (variant, died or 'short output', i, seqs[i][0],
                                seqs[i][1]), casefn(i))
    for i, (got, exp) in enumerate(zip(out, refs)):
      if got != exp:
        r.violation('C++ %s build: LfsrLength(s=%#x, n=%d) = %d, shortest LFSR has '
                    'length %d' % (variant, seqs[i][0], seqs[i][1], got, exp), casefn(i))
        break
  for i, ((s, n), exp) in enumerate(zip(seqs, refs)):
    st, got = guarded(w.bm.LinearComplexityNative, s, n)
    if st == 'exc' or got != exp:
      r.violation('LinearComplexityNative(%#x, %d) = %r, shortest LFSR has length %d' %
                  (s, n, got, exp), casefn(i))
      break
  if want_wrapper:
    for variant in ('clmul', 'portable'):
      st, got = isolated(_wrapper_block, variant, seqs)
      if st != 'ok':
        r.violation('LinearComplexity wrapper over the %s build: %s (%s) on a block '
                    'starting at (s=%#x, n=%d)' % (variant, st, got, seqs[0][0],
                                                 seqs[0][1]), casefn(0))
        continue
      for i, (g, exp) in enumerate(zip(got, refs)):
        if g != exp:
          r.violation('LinearComplexity(%#x, %d) [%s build] = %r, shortest LFSR has '
                      'length %d' % (seqs[i][0], seqs[i][1], variant, g, exp), casefn(i))
          break


def case_seq(s, n):
  r = Result()
  ref = lfsr.lc_definition(s, n) if n <= 64 else lfsr.lc_textbook(s, n)
  check_block([(s, n)], [ref], r, lambda i: None)
  return [v['what'] for v in r.violations]


def exhaustive(n, part, nparts):
  r = Result()
  tot = 1 << n
  lo, hi = part * tot // nparts, (part + 1) * tot // nparts
  seqs = [(s, n) for s in range(lo, hi)]
  refs = [lfsr.lc_definition(s, n) for s, _ in seqs]
  if n <= 12:
    for (s, _), ref in zip(seqs, refs):
      if lfsr.lc_textbook(s, n) != ref:
        raise AssertionError('reference models disagree on (%#x,%d)' % (s, n))
  check_block(seqs, refs, r, lambda i: {'fn': 'seq', 'args': {'s': seqs[i][0], 'n': n}})
  for ref in refs:
    r.extra['_hist:%d:%d' % (n, ref)] = r.extra.get('_hist:%d:%d' % (n, ref), 0) + 1
  nt_ = sum(1 for x in refs if 0 < x < n)
  r.ev('n=%d' % n, True, nt_)
  r.ev('n=%d' % n, False, len(refs) - nt_)
  r.sample({'n': n, 'range': [lo, hi - 1], 'implementations':
            ['c++/clmul', 'c++/portable', 'LinearComplexityNative',
             'LinearComplexity[clmul]', 'LinearComplexity[portable]']})
  return r


def post(extra, r, tier, seed):
  """Closed forms vs the measured histogram of the complete space."""
  w = world.load()
  hist = {}
  for k, v in extra.items():
    if k.startswith('_hist:'):
      _, n, m = k.split(':')
      hist[(int(n), int(m))] = v
  ns = sorted({n for n, _ in hist})
  for n in ns:
    if n < 1:
      continue
    if sum(v for (nn, _), v in hist.items() if nn == n) != 1 << n:
      continue  # partial run
    for m in range(-1, n + 2):
      true = hist.get((n, m), 0)
      st, got = guarded(w.bm.LfsrCount, n, m)
      r.ev('count')
      if st == 'exc' or got != true:
        r.violation('LfsrCount(%d, %d) = %r, true count over all %d-bit sequences is %d'
                    % (n, m, got, n, true), {'fn': 'count', 'args': {'n': n, 'm': m,
                                                                   'true': true}})
      st, got = guarded(w.bm.LfsrLogProbability, n, m)
      if 0 <= m <= n:
        if st == 'exc' or true != 2**(n + got):
          r.violation('LfsrLogProbability(%d, %d) = %r, true probability is %d/2^%d' %
                      (n, m, got, true, n), {'fn': 'count', 'args': {'n': n, 'm': m,
                                                                   'true': true}})
      elif st != 'exc':
        r.violation('LfsrLogProbability(%d, %d) = %r for an impossible length '
                    '(documented: ValueError)' % (n, m, got),
                    {'fn': 'count', 'args': {'n': n, 'm': m, 'true': true}})


def case_count(n, m, true):
  w = world.load()
  out = []
  if w.bm.LfsrCount(n, m) != true:
    out.append('LfsrCount(%d,%d) != %d' % (n, m, true))
  if 0 <= m <= n and 2**(n + w.bm.LfsrLogProbability(n, m)) != true:
    out.append('LfsrLogProbability(%d,%d) inconsistent with %d' % (n, m, true))
  return out


# ---- structured families at longer lengths --------------------------------

def _family(name, n, seed):
  full = (1 << n) - 1
  if name == 'constant':
    return [0, full]
  if name == 'onehot':
    return [1 << i for i in range(n)]
  if name == 'onecold':
    return [full ^ (1 << i) for i in range(n)]
  if name == 'twohot-tail':
    lo = max(0, n - 130)
    return [(1 << i) | (1 << j) for i in range(lo, n) for j in range(i + 1, n)]
  if name == 'twohot':
    return [(1 << i) | (1 << j) for i in range(n) for j in range(i + 1, n)]
  if name == 'periodic':
    out = []
    for per in range(1, 9):
      for pat in range(1 << per):
        s = 0
        for k in range(0, n, per):
          s |= pat << k
        out.append(s & full)
    return sorted(set(out))
  if name == 'lfsr':
    out = []
    for deg in range(1, 7):
      for taps in range(1 << (deg - 1), 1 << deg):
        for sd in range(1, 1 << deg):
          out.append(lfsr.lfsr_sequence(taps, sd, deg, n))
    return sorted(set(out))
  if name == 'lfsr-flip':
    out = []
    base = []
    for deg in (1, 2, 3, 5, 6):
      taps = {1: 1, 2: 3, 3: 5, 5: 0b10010, 6: 0b100001}[deg]
      base.append(lfsr.lfsr_sequence(taps, 1, deg, n))
    base.append(nt.drbg_int('c14flip%d-%d' % (seed, n), n))
    for b in base:
      for pos in range(max(0, n - 130), n):
        out.append(b ^ (1 << pos))
      for pos in range(0, min(n, 66)):
        out.append(b ^ (1 << pos))
    return out
  if name == 'random':
    return [nt.drbg_int('c14rnd%d-%d-%d' % (seed, n, k), n) for k in range(8)] + \
        [nt.drbg_int('c14lz%d-%d-%d' % (seed, n, k), n // 2) for k in range(4)] + \
        [nt.drbg_int('c14tz%d-%d-%d' % (seed, n, k), n // 2) << (n - n // 2)
         for k in range(4)]
  raise ValueError(name)


def case_family(name, n, seed, index):
  s = _family(name, n, seed)[index]
  return case_seq(s, n)


def families(n, names, seed):
  r = Result()
  for name in names:
    fam = _family(name, n, seed)
    refs = [lfsr.lc_textbook(s, n) for s in fam]
    seqs = [(s, n) for s in fam]
    check_block(seqs, refs, r,
                lambda i, name=name: {'fn': 'family', 'args': {
                    'name': name, 'n': n, 'seed': seed, 'index': i}},
                want_wrapper=True)
    r.ev('%s n%%64=%d' % (name, n % 64), True, len(fam))
  r.sample({'n': n, 'families': names})
  return r


def sanitized(variant):
  """ASan/UBSan build of the driver over all sequences of length <= 12 and the word-boundary
  families. Sanitizer reports are recorded in the evidence (notes); only a wrong returned
  length is a violation of this property."""
  r = Result()
  try:
    exe = world.build_native(variant, kind='driver', sanitize=True)
  except world.HarnessError as e:
    r.notes.append('sanitized %s build not available: %s' % (variant, str(e)[:200]))
    r.ev('sanitized/unavailable', False)
    return r
  seqs = [(s_, n) for n in range(0, 13) for s_ in range(1 << n)]
  for n in (63, 64, 65, 127, 128, 129, 191, 192, 193, 256, 320):
    for name in ('constant', 'onehot', 'periodic', 'random'):
      seqs += [(s_, n) for s_ in _family(name, n, 0)]
  lines = [_rec(s_, n) for s_, n in seqs]
  env = dict(os.environ, ASAN_OPTIONS='detect_leaks=0:abort_on_error=0',
             UBSAN_OPTIONS='print_stacktrace=1')
  p = subprocess.run([exe], input='\n'.join(lines) + '\n', capture_output=True, text=True,
                     env=env)
  out = [int(x) for x in p.stdout.split()]
  if p.returncode != 0 or len(out) != len(seqs):
    i = min(len(out), len(seqs) - 1)
    r.notes.append('sanitizer report (%s build) at input #%d = (s=%#x, n=%d): %s' %
                   (variant, i, seqs[i][0], seqs[i][1], p.stderr[-400:]))
  for (s_, n), got in zip(seqs, out):
    ref = lfsr.lc_textbook(s_, n)
    if got != ref:
      r.violation('C++ %s build under ASan/UBSan: LfsrLength(s=%#x, n=%d) = %d, shortest LFSR '
                  'has length %d' % (variant, s_, n, got, ref),
                  {'fn': 'seq', 'args': {'s': s_, 'n': n}})
      break
  r.ev('sanitized/%s' % variant, True, len(out))
  r.extra['sanitizer_runs_%s' % variant] = len(out)
  r.sample({'sanitized_build': variant, 'sequences': len(seqs)})
  return r


CASES = {'seq': case_seq, 'count': case_count, 'family': case_family}


def plan(tier, seed):
  thorough = tier == 'thorough'
  nmax = 24 if thorough else 20
  tasks = []
  for n in range(0, nmax + 1):
    nparts = max(1, (1 << n) * max(n, 4) // 300000)
    for part in range(nparts):
      tasks.append(Task('all-sequences', 'exhaustive',
                        {'n': n, 'part': part, 'nparts': nparts},
                        bound='every sequence of every length 0..%d x 5 implementation '
                        'paths; closed-form counts for every (n, m)' % nmax,
                        weight=(1 << n) * n / nparts))
  if thorough:
    lens = list(range(21, 200)) + [k * 64 + d for k in range(3, 18) for d in range(-3, 4)]
    lens = sorted(set(l for l in lens if l <= 1100))
  else:
    lens = sorted({k * 64 + d for k in range(1, 6) for d in range(-3, 4)} |
                  {21, 31, 33, 1023, 1024, 1025})
  for n in lens:
    names = ['constant', 'onehot', 'onecold', 'periodic', 'lfsr', 'lfsr-flip', 'random']
    if n <= 320:
      names.append('twohot' if (thorough or n <= 130) else 'twohot-tail')
    else:
      names.append('twohot-tail')
    tasks.append(Task('word-boundary-families', 'families',
                      {'n': n, 'names': names, 'seed': seed}, complete=False,
                      bound='lengths %d..%d (%d lengths incl. +-3 around multiples of 64): '
                      'all one-hot/one-cold, two-hot (all pairs, or all pairs in the '
                      'last 130 bits), all periodic (period<=8), all LFSRs of degree<=6 x '
                      'all seeds, flipped bit at every position of the first/last two '
                      'words' % (lens[0], lens[-1], len(lens)),
                      weight=n * n * 40))
  if thorough:
    for variant in ('clmul', 'portable'):
      tasks.append(Task('sanitizer-pass', 'sanitized', {'variant': variant}, complete=False,
                        bound='ASan+UBSan build of both C++ variants over all sequences <= 12 bits '
                        'and word-boundary families (reports recorded, not verdicts)',
                        weight=1e7))
  return tasks
