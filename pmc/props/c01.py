"""C01 -- every factor reported for an RSA modulus really divides it."""
import itertools

from pmc import alpha_rsa, art, gen_rsa, world
from pmc.core import Result, Task, guarded
from pmc.refs import nt

ID = 'C01'
LEVEL = 'exploration'
LEVEL_TEXT = ('Bounded-exhaustive exploration of factor soundness: every n in [2, 2^14] '
              '(2^17 thorough) through each public factoring helper with a parameter alphabet, '
              'every (n, guess) with n <= 2^11 (2^12) through FactorWithGuess; at check level '
              'every single key, a fixed family of pairs/triples (duplicates, shared primes, '
              'nested moduli, weak next to healthy) over a 44-modulus alphabet (healthy, every '
              'documented weak family, degenerate) through each of the 17 RSA check classes x '
              'constructor alphabets and through CheckAllRSA. Oracle: one division.')
TECHNIQUE = ('bounded-exhaustive enumeration of small moduli x parameters on the real factoring '
             'helpers, and of batches over a weak-family alphabet on the real check classes; '
             'oracle = divisibility (M1)')
RULE = ('helpers: every n in range x every parameter tuple; checks: every (check, constructor '
        'arguments, batch); distinct by construction; non-trivial = some factor was reported '
        '(the oracle was exercised)')
ASSUMPTIONS = ['proto/pybind shims of pmc.world', 'gmpy2 primality test for composite/prime',
               'moduli below 2^63 are outside the property: for them only "reported values '
               'divide n" is asserted, not properness']


def _u512():
  w = world.load()
  return sorted(w.unseeded_rands.size_unseeded_map[512])[0]


def _divides(fs, n):
  return all(int(f) != 0 and n % int(f) == 0 for f in fs)


LAST = {'reported': False, 'recorded': False}


def case_helper(fn, n, params):
  w = world.load()
  R, S = w.rsa_util, w.special_case_factoring
  out = []
  composite = n > 3 and not nt.is_prime(n)

  LAST['reported'] = False

  def chk(name, res, want_product=True, want_proper=False):
    if res is None or len(res) == 0:
      return
    LAST['reported'] = True
    fs = [int(f) for f in res]
    if not _divides(fs, n):
      out.append('%s(%d, %r) = %r: not all values divide n' % (name, n, params, fs))
    elif want_product and nt.prod(fs) != n:
      out.append('%s(%d, %r) = %r: product is not n' % (name, n, params, fs))
    elif want_proper and not any(1 < f < n for f in fs):
      out.append('%s(%d, %r) = %r: no proper divisor of a composite modulus' %
                 (name, n, params, fs))

  if fn == 'FermatFactor':
    st, res = guarded(R.FermatFactor, n, params[0])
    if st == 'exc':
      return ['FermatFactor(%d,%r) raised %s' % (n, params, res)]
    chk(fn, res, True, composite)
  elif fn == 'FactorHighAndLowBitsEqual':
    st, res = guarded(R.FactorHighAndLowBitsEqual, n, params[0])
    if st == 'exc':
      return ['FactorHighAndLowBitsEqual(%d,%r) raised %s' % (n, params, res)]
    chk(fn, res, True, False)
  elif fn == 'CheckContinuedFraction':
    st, res = guarded(R.CheckContinuedFraction, n, params[0])
    if st == 'exc':
      return ['CheckContinuedFraction(%d,%r) raised %s' % (n, params, res)]
    ok, fs = res
    if ok and fs:
      out.append('CheckContinuedFraction(%d,%r) reports ok together with factors' % (n, params))
    chk(fn, fs, True, True)
  elif fn == 'CheckFraction':
    st, res = guarded(R.CheckFraction, n, params[0])
    if st == 'exc':
      return ['CheckFraction(%d,%r) raised %s' % (n, params, res)]
    chk(fn, res, True, True)
  elif fn == 'Pollardpm1':
    st, res = guarded(R.Pollardpm1, n, params[0], params[1])
    if st == 'exc':
      return ['Pollardpm1(%d,%r) raised %s' % (n, params, res)]
    weak, fs = res
    if fs and not weak:
      out.append('Pollardpm1(%d,%r) returned factors without the weak flag' % (n, params))
    chk(fn, fs, True, True)
  elif fn == 'CheckLowHammingWeight':
    st, res = guarded(R.CheckLowHammingWeight, n, params[0], params[1])
    if st == 'exc':
      return ['CheckLowHammingWeight(%d,%r) raised %s' % (n, params, res)]
    weak, fs = res
    if fs and not weak:
      out.append('CheckLowHammingWeight(%d,%r) returned factors without the weak flag' %
                 (n, params))
    chk(fn, fs, True, False)
  elif fn == 'CheckSmallUpperDifferences':
    st, res = guarded(R.CheckSmallUpperDifferences, n)
    if st == 'exc':
      return ['CheckSmallUpperDifferences(%d) raised %s' % (n, res)]
    chk(fn, res, True, True)
  elif fn == 'FactorWithGuess':
    st, res = guarded(S.FactorWithGuess, n, params[0])
    if st == 'exc':
      return ['FactorWithGuess(%d,%r) raised %s' % (n, params, res)]
    chk(fn, res, True, True)
  else:
    raise ValueError(fn)
  return out


def _helper_params():
  m_small = 2 * 3 * 5 * 7
  m_big = nt.prod(p**max(1, int(16 // p.bit_length())) for p in nt.sieve(200))
  perm = [(2**ps - 1) * (2**(ps * ws) + 1) // (2**ws + 1) for ws, ps in ((8, 3), (8, 5), (16, 3))]
  return [
      ('FermatFactor', [(s,) for s in (0, 1, 2, 7, 100, 10**5)]),
      ('FactorHighAndLowBitsEqual', [(mb,) for mb in range(0, 5)]),
      ('CheckContinuedFraction', [(b,) for b in (1, 2, 16, 2**48)]),
      ('CheckFraction', [(d,) for d in [1, 3, 7, 15, 255] + perm]),
      ('Pollardpm1', [(m, gb) for m in (m_small, m_big) for gb in (1, 2**60)]),
      ('CheckLowHammingWeight', [(50, 200), (5, 40), (2500, 3000)]),
      ('CheckSmallUpperDifferences', [()]),
  ]


def helpers(lo, hi):
  r = Result()
  plist = _helper_params()
  for n in range(lo, hi):
    for fn, params_list in plist:
      for params in params_list:
        bad = case_helper(fn, n, list(params))
        r.ev('%s/%s' % (fn, 'factors' if LAST['reported'] else 'none'), LAST['reported'])
        for b in bad:
          r.violation(b, {'fn': 'helper', 'args': {'fn': fn, 'n': n, 'params': list(params)}})
    if len(r.violations) > 20:
      break
  r.sample({'n': [lo, hi - 1], 'helpers': [f for f, _ in plist]})
  return r


def guesses(lo, hi):
  r = Result()
  for n in range(lo, hi):
    for p0 in range(1, n + 1):
      bad = case_helper('FactorWithGuess', n, [p0])
      r.ev('FactorWithGuess/%s' % ('factors' if LAST['reported'] else 'none'), LAST['reported'])
      for b in bad:
        r.violation(b, {'fn': 'helper', 'args': {'fn': 'FactorWithGuess', 'n': n,
                                                 'params': [p0]}})
  r.sample({'FactorWithGuess': 'all n in [%d,%d) x all guesses 1..n' % (lo, hi)})
  return r


def guesses_big(seed):
  """64..256-bit semiprimes with guesses at every distance scale from a factor."""
  r = Result()
  for bits in (64, 65, 96, 128, 256):
    for i in range(4):
      p = nt.rand_prime('c01g-p-%d-%d-%d' % (seed, bits, i), bits // 2)
      q = nt.rand_prime('c01g-q-%d-%d-%d' % (seed, bits, i), bits - bits // 2)
      n = p * q
      for e in range(0, bits // 2 + 2):
        for sign in (1, -1):
          p0 = p + sign * ((1 << e) + i)
          if p0 < 1:
            continue
          bad = case_helper('FactorWithGuess', n, [p0])
          r.ev('FactorWithGuess-big', True)
          for b in bad:
            r.violation(b, {'fn': 'helper', 'args': {'fn': 'FactorWithGuess', 'n': n,
                                                     'params': [p0]}})
      for fn, plist in _helper_params():
        for params in plist:
          bad = case_helper(fn, n, list(params))
          r.ev(fn + '-big', True)
          for b in bad:
            r.violation(b, {'fn': 'helper', 'args': {'fn': fn, 'n': n, 'params': list(params)}})
  r.sample({'semiprimes_bits': [64, 65, 96, 128, 256], 'guess_distances': '2^e, e=0..bits/2+1'})
  return r


# ---- check level ----------------------------------------------------------------

def _custom_storage(w, rands):
  class S(w.storage.Storage):

    def GetUnseededRands(self, size):
      return frozenset(rands) if size in (512, 1024) else frozenset()

    def GetKeypairData(self):
      return w.default_storage.DefaultStorage().GetKeypairData()

    def GetOpensslDenylist(self):
      return set()

  return S()


def _check_configs(w):
  S, A = w.rsa_single_checks, w.rsa_aggregate_checks
  u = _u512()
  cfg = [('CheckSizes', S.CheckSizes, []), ('CheckExponents', S.CheckExponents, []),
         ('CheckROCA', S.CheckROCA, []), ('CheckROCAVariant', S.CheckROCAVariant, []),
         ('CheckFermat', S.CheckFermat, []), ('CheckFermat[1]', S.CheckFermat, [1]),
         ('CheckFermat[0]', S.CheckFermat, [0]),
         ('CheckHighAndLowBitsEqual', S.CheckHighAndLowBitsEqual, []),
         ('CheckOpensslDenylist', S.CheckOpensslDenylist, []),
         ('CheckContinuedFractions', S.CheckContinuedFractions, []),
         ('CheckContinuedFractions[2]', S.CheckContinuedFractions, [2]),
         ('CheckBitPatterns', S.CheckBitPatterns, []),
         ('CheckBitPatterns[[]]', S.CheckBitPatterns, [[]]),
         ('CheckBitPatterns[[1]]', S.CheckBitPatterns, [[1]]),
         ('CheckBitPatterns[[7,8]]', S.CheckBitPatterns, [[7, 8]]),
         ('CheckBitPatterns[[4096]]', S.CheckBitPatterns, [[4096]]),
         ('CheckBitPatterns[[255,511]]', S.CheckBitPatterns, [[255, 511]]),
         ('CheckPermutedBitPatterns', S.CheckPermutedBitPatterns, []),
         ('CheckPollardpm1', S.CheckPollardpm1, []),
         ('CheckPollardpm1[64]', S.CheckPollardpm1, [64]),
         ('CheckLowHammingWeight', S.CheckLowHammingWeight, []),
         ('CheckUnseededRand', S.CheckUnseededRand, []),
         ('CheckUnseededRand[custom]', S.CheckUnseededRand, ['storage']),
         ('CheckSmallUpperDifferences', S.CheckSmallUpperDifferences, []),
         ('CheckKeypairDenylist', S.CheckKeypairDenylist, []),
         ('CheckGCD', A.CheckGCD, []), ('CheckGCDN1', A.CheckGCDN1, []),
         ('CheckGCDN1[2]', A.CheckGCDN1, [2])]
  return cfg


def _oracle(keys, ns, label):
  """Factor soundness on annotated keys."""
  out = []
  for k, n in zip(keys, ns):
    f = art.factors(k.test_info, 'N_FACTORS')
    f1 = art.factors(k.test_info, 'N-1_FACTORS')
    if f is not None:
      if not f or not _divides(f, n):
        out.append('%s recorded N_FACTORS %s for n=%#x...(%d bits): not all divide n' %
                   (label, sorted(f)[:4], n >> max(0, n.bit_length() - 64), n.bit_length()))
      elif not k.test_info.weak:
        out.append('%s recorded factors but the key is not marked weak' % label)
      elif not any(1 < x < n for x in f) and not any(m != n and m % n == 0 for m in ns) and \
          n.bit_length() >= 64:
        others = nt.prod(set(m for m in ns if m != n))
        tag = ' [n divides the product of several other moduli]' if others % n == 0 else ''
        out.append('%s recorded only trivial factors %s for a %d-bit modulus%s' %
                   (label, sorted(f), n.bit_length(), tag))
    if f1 is not None:
      if not f1 or not _divides(f1, n - 1):
        out.append('%s recorded N-1_FACTORS %s: not all divide n-1 (%d-bit modulus)' %
                   (label, sorted(f1)[:4], n.bit_length()))
      elif not k.test_info.weak:
        out.append('%s recorded N-1 factors but the key is not marked weak' % label)
  return out


def case_check(check, names):
  w = world.load()
  alpha = {nm: n for nm, n, _ in alpha_rsa.alphabet(_u512())}
  if 'bit-pattern-255-4096' in names:
    alpha['bit-pattern-255-4096'] = gen_rsa.bit_pattern(4096, 255, 16, 0)['n']
  ns = [alpha[nm] for nm in names]
  keys = [art.rsa_key(n) for n in ns]
  if check == 'CheckAllRSA':
    st, ret = guarded(w.paranoid.CheckAllRSA, keys)
  else:
    cls, args = [(c, a) for nm, c, a in _check_configs(w) if nm == check][0]
    args = [_custom_storage(w, [_u512(), 12345]) if a == 'storage' else a for a in args]
    st, obj = guarded(cls, *args)
    if st == 'exc':
      return ['%s constructor raised %s' % (check, obj)]
    st, ret = guarded(obj.Check, keys)
  if st == 'exc':
    return ['%s.Check(%s) raised %s' % (check, names, ret)]
  LAST['recorded'] = any(art.factors(k.test_info, nm) is not None for k in keys
                         for nm in ('N_FACTORS', 'N-1_FACTORS'))
  return _oracle(keys, ns, '%s on batch %s' % (check, names))


def _batches(alpha, thorough):
  names = [nm for nm, _, info in alpha if not info['slow']]
  slow = [nm for nm, _, info in alpha if info['slow']]
  singles = [[nm] for nm in names + slow]
  special = [['shared-a', 'shared-b'], ['shared-b', 'shared-a'], ['shared-a', 'shared-a'],
             ['nested', 'shared-a'], ['shared-a', 'nested'], ['nested', 'shared-b'],
             ['strong-2048', 'fermat-2048'], ['fermat-2048', 'strong-2048'],
             ['2^64', '2p-65'], ['prime-64', '2p-65'], ['square-66', 'cube'],
             ['strong-2048', 'strong-2048b'], ['smooth', '2^64'], ['2^64', '2^2048'],
             ['three-primes', 'cube'], ['prime-2048', 'square-2048']]
  adjacent = [[names[i], names[i + 1]] for i in range(len(names) - 1)]
  triples = [['shared-a', 'strong-2048', 'shared-b'], ['nested', 'shared-a', 'shared-b'],
             ['shared-a', 'shared-a', 'shared-b'], ['fermat-2048', 'shared-b', 'nested'],
             ['2^64', '2^63', 'smooth'], ['prime-64', '2p-65', 'three-primes']]
  if thorough:
    sub = ['strong-2048', 'shared-a', 'shared-b', 'nested', 'fermat-128', 'prime-64', '2p-65',
           '2^64', 'square-66', 'smooth', 'three-primes', 'keypair-2048']
    special += [list(p) for p in itertools.permutations(sub, 2)]
    triples += [list(p) for p in itertools.permutations(sub[:7], 3)]
  return singles, special + adjacent, triples


def checks(check, kind, thorough):
  r = Result()
  alpha = alpha_rsa.alphabet(_u512())
  singles, pairs, triples = _batches(alpha, thorough)
  batches = {'singles': singles, 'pairs': pairs, 'triples': triples}[kind]
  for names in batches:
    if check not in ('CheckAllRSA', 'CheckLowHammingWeight') or True:
      bad = case_check(check, names)
    r.ev('%s/%s/%s' % (check.split('[')[0], kind, 'recorded' if LAST['recorded'] else 'none'),
         LAST['recorded'])
    for b in bad[:2]:
      key = None
      if b.endswith('[n divides the product of several other moduli]') and \
          check.startswith(('CheckGCD', 'CheckAllRSA')):
        key = {'finding': 'gcd-trivial-when-n-divides-product-of-others'}
      r.violation(b, {'fn': 'check', 'args': {'check': check, 'names': names}}, key=key)
  r.sample({'check': check, 'batches': kind, 'count': len(batches)})
  return r


CARRY_WEAK = ['fermat-2048', 'fermat-128', 'high-low-equal-1024', 'upper-diff-1024',
              'upper-diff-2048', 'unseeded-1024', 'bit-pattern-2048', 'bit-pattern-255-4096',
              'permuted-pattern-1024', 'both-patterned-1024', 'low-hamming-1024',
              'pm1-one-smooth-1024', 'roca-1024', 'keypair-2048', 'shared-a', '2p-65', 'cube']
CARRY_CLEAN = ['strong-1024', 'strong-65', 'strong-3072']


def carry(check):
  """A key for which the check records something, followed (and preceded) by clean keys of
  *other sizes* in the same Check() call: nothing recorded for the first key may reach the
  second (state carried over between loop iterations, size-dependent skips)."""
  r = Result()
  for wk in CARRY_WEAK:
    for cl in CARRY_CLEAN:
      for names in ([wk, cl], [cl, wk, cl]):
        bad = case_check(check, names)
        r.ev('%s/carry/%s' % (check.split('[')[0], 'recorded' if LAST['recorded'] else 'none'),
             LAST['recorded'])
        for b in bad[:2]:
          r.violation(b, {'fn': 'check', 'args': {'check': check, 'names': names}})
    if len(r.violations) > 6:
      break
  r.sample({'check': check, 'weak_keys': CARRY_WEAK, 'clean_keys_of_other_sizes': CARRY_CLEAN})
  return r


CASES = {'helper': case_helper, 'check': case_check}


def plan(tier, seed):
  thorough = tier == 'thorough'
  T = []
  top = 1 << (17 if thorough else 14)
  step = top // (64 if thorough else 16)
  for lo in range(2, top + 1, step):
    T.append(Task('helpers-all-n', 'helpers', {'lo': lo, 'hi': min(lo + step, top + 1)},
                  bound='every n in [2, %d] x 7 helpers x parameter alphabets' % top,
                  weight=step * 4e3))
  gtop = 1 << (12 if thorough else 11)
  edges = [2]
  while edges[-1] < gtop:
    edges.append(min(gtop + 1, int((edges[-1]**2 + gtop**2 / 16)**0.5) + 1))
  for lo, hi in zip(edges, edges[1:]):
    T.append(Task('guess-all-n-p0', 'guesses', {'lo': lo, 'hi': hi},
                  bound='FactorWithGuess: every n <= %d x every guess 1..n' % gtop,
                  weight=(hi**2 - lo**2) * 10))
  T.append(Task('helpers-semiprimes', 'guesses_big', {'seed': seed}, complete=False,
                bound='64..256-bit semiprimes x guesses at every distance scale', weight=5e6))
  w = world.load()
  for nm, _, _ in _check_configs(w) + [('CheckAllRSA', None, None)]:
    for kind in ('singles', 'pairs', 'triples'):
      if kind == 'triples' and nm not in ('CheckAllRSA', 'CheckGCD', 'CheckGCDN1',
                                          'CheckGCDN1[2]'):
        continue
      T.append(Task('check-level', 'checks', {'check': nm, 'kind': kind, 'thorough': thorough},
                    bound='28 check configurations + CheckAllRSA x (44 single keys, %s pairs, '
                    'triples for the aggregate checks and CheckAllRSA)' %
                    ('all ordered pairs of a 12-key sub-alphabet +' if thorough else '57'),
                    weight=3e7 if nm in ('CheckAllRSA', 'CheckLowHammingWeight') else 5e6))
    if nm != 'CheckAllRSA' or thorough:
      T.append(Task('carry-over', 'carry', {'check': nm},
                    bound='28 check configurations x 17 keys the checks record something for x 3 '
                    'clean keys of other sizes, batches [weak, clean] and [clean, weak, clean]',
                    weight=2e7 if nm == 'CheckLowHammingWeight' else 6e6))
  return T
