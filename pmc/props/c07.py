"""C07 -- healthy keys and signatures are never accused."""
from pmc import alpha_rsa, art, gen_ec as G, gen_rsa as g, world
from pmc.core import Result, Task, guarded
from pmc.refs import nt

ID = 'C07'
LEVEL = 'exploration'
LEVEL_TEXT = ('Exhaustive enumeration of an initial segment of the seed domain of a SHAKE-128 '
              'DRBG (seeds s0..s0+K, s0 from VERIF_SEED): RSA keys of 2048/3072/4096 bits from '
              'independent random primes with e = 65537, EC keys with random private keys on the 8 '
              'curves >= 224 bits, ECDSA signatures with random nonces; each artifact alone, in '
              'batches of healthy neighbours (sizes 2, 8, 50, 200 for RSA; 2..8 keys of one curve '
              'with the default 2^24 difference table for EC; up to 50 signatures), and with one '
              'weak neighbour at every position of a batch of 3. Oracle: no positive entry, weak '
              'flag clear, entry points return False for all-healthy batches, verdict unchanged by '
              'the weak neighbour.')
TECHNIQUE = ('exhaustive enumeration of a seed window x batch layouts on the real entry points; '
             'oracle = nothing is flagged (M1 over the seed domain)')
RULE = ('every (seed, size/curve, layout) of the window; distinct by construction; non-trivial = '
        'batch of >= 2 artifacts or a weak neighbour present')
ASSUMPTIONS = ['proto/pybind shims of pmc.world', 'SHAKE-128 as the uniform source',
               'the design false-positive rate (<= 2^-37 per key) is not measurable: only gross '
               'over-eagerness (>= ~1/K) is visible', 'gmpy2 primality']


def _u512():
  w = world.load()
  return sorted(w.unseeded_rands.size_unseeded_map[512])[0]


def _clean(a):
  ti = a.test_info
  return not ti.weak and not any(t.result for t in ti.test_results) and not ti.attached_info


def _positives(a):
  return sorted(t.test_name for t in a.test_info.test_results if t.result)


def _rsa_key(bits, seed):
  return art.rsa_key(g.strong(bits, 'c07-%d' % seed)['n'])


def case_rsa_alone(bits, seed):
  w = world.load()
  k = _rsa_key(bits, seed)
  st, ret = guarded(w.paranoid.CheckAllRSA, [k])
  if st == 'exc':
    return ['CheckAllRSA raised %s on a healthy %d-bit key (seed %d)' % (ret, bits, seed)]
  if ret is not False or not _clean(k):
    return ['healthy %d-bit RSA key from DRBG seed %d is accused by %s (CheckAllRSA returned %r)'
            % (bits, seed, _positives(k), ret)]
  return []


def case_rsa_batch(bits, seed, size):
  w = world.load()
  ks = [_rsa_key(bits, seed + i) for i in range(size)]
  if size >= 2:
    # the same healthy key may occur more than once in a batch (e.g. re-submitted certificates)
    ks.append(_rsa_key(bits, seed))
    ks.insert(1, _rsa_key(bits, seed + size - 1))
  st, ret = guarded(w.paranoid.CheckAllRSA, ks)
  if st == 'exc':
    return ['CheckAllRSA raised %s on %d healthy keys' % (ret, size)]
  bad = [(i, _positives(k)) for i, k in enumerate(ks) if not _clean(k)]
  if ret is not False or bad:
    return ['batch of %d healthy %d-bit RSA keys (seeds %d..): returned %r, accused: %s' %
            (size, bits, seed, ret, bad[:3])]
  return []


def case_rsa_weak_neighbour(bits, seed, weak_name, pos):
  w = world.load()
  alpha = {nm: n for nm, n, _ in alpha_rsa.alphabet(_u512())}
  hs = [_rsa_key(bits, seed), _rsa_key(bits, seed + 1)]
  batch = hs[:pos] + [art.rsa_key(alpha[weak_name])] + hs[pos:]
  st, ret = guarded(w.paranoid.CheckAllRSA, batch)
  if st == 'exc':
    return ['CheckAllRSA raised %s' % ret]
  bad = [_positives(k) for k in hs if not _clean(k)]
  if bad:
    return ['healthy %d-bit RSA keys (seed %d) are accused by %s when the weak key %s sits at '
            'position %d of the batch' % (bits, seed, bad, weak_name, pos)]
  return []


def rsa(bits, seeds, sizes, weak_names):
  r = Result()
  for sd in seeds:
    for b in case_rsa_alone(bits, sd):
      r.violation(b, {'fn': 'rsa_alone', 'args': {'bits': bits, 'seed': sd}})
    r.ev('rsa/alone', False)
  for size in sizes:
    for b in case_rsa_batch(bits, seeds[0], size):
      r.violation(b, {'fn': 'rsa_batch', 'args': {'bits': bits, 'seed': seeds[0], 'size': size}})
    r.ev('rsa/batch%d' % size, True)
  for wn in weak_names:
    for pos in (0, 1, 2):
      for b in case_rsa_weak_neighbour(bits, seeds[0], wn, pos):
        r.violation(b, {'fn': 'rsa_weak', 'args': {'bits': bits, 'seed': seeds[0],
                                                   'weak_name': wn, 'pos': pos}})
      r.ev('rsa/weak-neighbour', True)
  r.sample({'rsa_bits': bits, 'seeds': [seeds[0], seeds[-1]], 'batch_sizes': sizes,
            'weak_neighbours': weak_names})
  return r


# ---- EC ----------------------------------------------------------------------------------

STRONG_CURVES = [2, 3, 4, 5, 6, 17, 18, 19]


def _ec_key(cid, seed):
  return G.key_proto(cid, G.rand_scalar('c07-ec-%d-%d' % (cid, seed), G.curve(cid).n))


def case_ec(cid, seeds, weak_pos):
  """CheckAllEC on the keys of the given seeds (one curve); optional weak neighbour (small
  private key on the same curve) at weak_pos. weak_pos = 'dup+pair': the first healthy key
  occurs twice and a pair of keys with a small private-key difference follows."""
  w = world.load()
  hs = [_ec_key(cid, s) for s in seeds]
  batch = list(hs)
  if weak_pos == 'dup+pair' or weak_pos == 'dup+pair2':
    n = G.curve(cid).n
    d = G.rand_scalar('c07-pair-%d' % cid, n)
    pair = [G.key_proto(cid, d), G.key_proto(cid, d + 777)]
    dup = _ec_key(cid, seeds[0])
    hs = hs + [dup]
    batch = (hs[:1] + hs[1:2] + [dup] + pair + hs[2:-1]) if weak_pos == 'dup+pair' else (
        hs[:1] + [dup] + pair[:1] + hs[1:-1] + pair[1:])
  elif weak_pos is not None:
    batch = hs[:weak_pos] + [G.key_proto(cid, 0x4321 << 8)] + hs[weak_pos:]
  st, ret = guarded(w.paranoid.CheckAllEC, batch)
  if st == 'exc':
    return ['CheckAllEC raised %s' % ret]
  bad = [(i, _positives(k)) for i, k in enumerate(hs) if not _clean(k)]
  if bad or (weak_pos is None and ret is not False):
    return ['healthy EC keys on %s (seeds %s%s): returned %r, accused: %s' %
            (G.NAMES[cid], seeds, '' if weak_pos is None else ', weak neighbour layout %s' % (weak_pos,),
             ret, bad[:3])]
  return []


def ec_alone(cid, seeds):
  r = Result()
  for sd in seeds:
    for b in case_ec(cid, [sd], None):
      r.violation(b, {'fn': 'ec', 'args': {'cid': cid, 'seeds': [sd], 'weak_pos': None}})
    r.ev('ec/alone', False)
  r.sample({'curve': G.NAMES[cid], 'seeds': [seeds[0], seeds[-1]], 'layout': 'alone'})
  return r


def ec_batches(cid, seeds):
  """Memory-heavy: several keys of one curve (default 2^24 difference table)."""
  r = Result()
  layouts = [(seeds[:2], None), (seeds, None), (seeds[:2], 0), (seeds[:2], 1), (seeds[:2], 2),
             (seeds[:3], 'dup+pair'), (seeds[:3], 'dup+pair2')]
  for sds, wp in layouts:
    for b in case_ec(cid, list(sds), wp):
      r.violation(b, {'fn': 'ec', 'args': {'cid': cid, 'seeds': list(sds), 'weak_pos': wp}})
    r.ev('ec/batch%s' % ('' if wp is None else '+weak'), True)
  r.sample({'curve': G.NAMES[cid], 'batch_sizes': [2, len(seeds)], 'weak_neighbour_positions':
            [0, 1, 2], 'difference_table': '2^24'})
  return r


# ---- ECDSA ---------------------------------------------------------------------------------------

def _sigs(cid, seed, count, hashname='sha256'):
  n = G.curve(cid).n
  d = G.rand_scalar('c07-sd-%d-%d' % (cid, seed), n)
  ks = G.nonces('random', cid, 0, count, 'c07-sk-%d-%d' % (cid, seed))
  return [G.signature(cid, d, k, 'c07-%d-%d' % (seed, i), hashname) for i, k in enumerate(ks)]


def case_sigs(cid, seed, count, weak):
  w = world.load()
  hs = _sigs(cid, seed, count)
  batch = list(hs)
  if weak:
    cid2 = 6 if cid != 6 else 2  # a biased issuer on another curve (no shared table)
    n2 = G.curve(cid2).n
    d2 = G.rand_scalar('c07-wd-%d' % seed, n2)
    ws = [G.signature(cid2, d2, k, 'c07-w-%d' % i)
          for i, k in enumerate(G.nonces('msb', cid2, 64, 12, 'c07-w-%d' % seed))]
    batch = ws[:4] + hs[:1] + ws[4:8] + hs[1:] + ws[8:]
    if weak == 'key':
      # an issuer whose *key* is weak (small private key), random nonces, in front
      ws = [G.signature(cid2, 0x12345678, k, 'c07-wk-%d' % i)
            for i, k in enumerate(G.nonces('random', cid2, 0, 2, 'c07-wk-%d' % seed))]
      batch = ws[:1] + hs[:1] + ws[1:] + hs[1:]
  st, ret = guarded(w.paranoid.CheckAllECDSASigs, batch)
  if st == 'exc':
    return ['CheckAllECDSASigs raised %s' % ret]
  bad = [(i, _positives(s)) for i, s in enumerate(hs) if not _clean(s)]
  if bad or (not weak and ret is not False):
    return ['%d healthy signatures on %s (seed %d%s): returned %r, accused: %s' %
            (count, G.NAMES[cid], seed, ', weak issuer in the batch' if weak else '', ret,
             bad[:3])]
  return []


def sigs(cid, seeds, counts):
  r = Result()
  for sd in seeds:
    for b in case_sigs(cid, sd, 1, False):
      r.violation(b, {'fn': 'sigs', 'args': {'cid': cid, 'seed': sd, 'count': 1, 'weak': False}})
    r.ev('ecdsa/alone', False)
  for c in counts:
    for weak in ((False, True, 'key') if c <= 8 else (False, True)):
      for b in case_sigs(cid, seeds[0], c, weak):
        r.violation(b, {'fn': 'sigs', 'args': {'cid': cid, 'seed': seeds[0], 'count': c,
                                               'weak': weak}})
      r.ev('ecdsa/batch%d%s' % (c, ('+weak-%s' % ('key' if weak == 'key' else 'nonces')) if weak else ''), True)
  r.sample({'curve': G.NAMES[cid], 'seeds': [seeds[0], seeds[-1]], 'batch_sizes': counts})
  return r


CASES = {'rsa_alone': case_rsa_alone, 'rsa_batch': case_rsa_batch,
         'rsa_weak': case_rsa_weak_neighbour, 'ec': case_ec, 'sigs': case_sigs}


def plan(tier, seed):
  thorough = tier == 'thorough'
  K = 64 if thorough else 8
  s0 = seed * 1000
  T = []
  weak_names = ['fermat-2048', 'shared-a', 'keypair-2048', '2^64', 'bit-pattern-2048']
  rb = ('seeds s0..s0+%d x {2048,3072,4096} bits: alone; healthy batches of 2, 8, 50, 200; one of '
        '5 weak neighbours at every position of a batch of 3' % K)
  for bits in (2048, 3072, 4096):
    for c in range(0, K, 8):
      sds = list(range(s0 + c, s0 + c + 8))
      T.append(Task('rsa-seed-window', 'rsa', {'bits': bits, 'seeds': sds, 'sizes': [2, 8],
                                               'weak_names': weak_names[:1] if c else []},
                    bound=rb, weight=bits**2 * 200))
    for size in ([50, 200] if bits == 2048 else [50]):
      T.append(Task('rsa-seed-window', 'rsa', {'bits': bits, 'seeds': [s0 + 100], 'sizes': [size],
                                               'weak_names': []}, bound=rb,
                    weight=bits**2 * 60 * size))
    for wn in weak_names:
      T.append(Task('rsa-seed-window', 'rsa', {'bits': bits, 'seeds': [s0 + 200], 'sizes': [],
                                               'weak_names': [wn]}, bound=rb,
                    weight=bits**2 * 100))
  for cid in STRONG_CURVES:
    T.append(Task('ec-seed-window', 'ec_alone',
                  {'cid': cid, 'seeds': list(range(s0, s0 + (K // 4 if thorough else 2)))},
                  bound='8 curves >= 224 bits x seeds: each key alone through CheckAllEC',
                  weight=G.curve(cid).n.bit_length()**2 * 3e4))
  heavy = STRONG_CURVES if thorough else [STRONG_CURVES[seed % 8]]
  for cid in heavy:
    T.append(Task('ec-batches-default-table', 'ec_batches',
                  {'cid': cid, 'seeds': list(range(s0, s0 + 8))}, mem_heavy=True,
                  bound='2 and 8 healthy keys of one curve, and a weak neighbour at every position '
                  'of a batch of 3, with the default 2^24 difference table (%s)' %
                  ('all 8 curves' if thorough else 'one curve rotating with the seed'),
                  weight=1e10))
  for cid in (STRONG_CURVES if thorough else [2, 4, STRONG_CURVES[(seed + 3) % 8]]):
    for counts in ([[2, 8], [50]] if thorough else [[2, 8], [24]]):
      T.append(Task('ecdsa-seed-window', 'sigs',
                    {'cid': cid, 'seeds': list(range(s0, s0 + (8 if thorough else 3)))
                     if counts[0] == 2 else [s0 + 300], 'counts': counts},
                    bound='signatures with DRBG nonces: alone, batches of 2/8/24 (50 thorough) of '
                    'one issuer, with a biased issuer interleaved, with a weak-key issuer in front', weight=5e9))
  return T
