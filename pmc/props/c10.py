"""C10 -- small and structured discrete logarithms are always found."""
import collections
import hashlib
import itertools

from pmc import art, world
from pmc.core import Result, Task, guarded
from pmc.refs import ec as rec
from pmc.refs import nt

ID = 'C10'
LEVEL = 'model_checking'
LEVEL_TEXT = ('Explicit-state exploration of the cached baby-step table shared by BatchDL and '
              'BatchDLOfDifferences: BFS over call histories (requests smaller / equal / larger '
              'than the cached table) to the fixpoint of the table-size lattice; in every reached '
              'state the complete probe "every x in [0,B) at every list position" and the '
              'complete difference probe are re-run and compared with the initial state. '
              'Complete small-scope enumeration on mid-size prime-order curves (all x < B for '
              '50 bounds x 6 list lengths; all pairs of a window x all max_diff <= 64), and the '
              'structured private keys (every byte shift, every repetition count, table-edge '
              'words) on all nine named curves.')
TECHNIQUE = ('explicit-state BFS over call histories of the real EcCurve cache + exhaustive '
             'enumeration of all discrete logs below the bound on small prime-order curves')
RULE = ('every (bound, list length, x, position) / every (x1, x2, max_diff) / every history '
        'of <= 3 calls; distinct by construction; non-trivial = x > 0 (a real search) or a '
        'history that changes the cached table')
ASSUMPTIONS = ['proto/pybind shims of pmc.world', 'schoolbook reference pmc/refs/ec.py',
               'oracle precondition on small curves: bound + 4*table + 4 < order/2 (no group '
               'wrap-around)', 'points are valid curve points or infinity']


def _mid_curves(seed, thorough):
  out = []
  shapes = ('a-3', 'generic', 'a0')
  out += list(rec.tiny_curves(10007 + 200 * (seed % 3), 12000, shapes[seed % 3], 1, 1, 0))
  out += list(rec.tiny_curves(65537, 66000, shapes[(seed + 1) % 3], 1, 1, 0))
  if thorough:
    out += list(rec.tiny_curves(20011, 22000, shapes[(seed + 2) % 3], 1, 1, 0))
    out += list(rec.tiny_curves(99991, 101000, shapes[seed % 3], 1, 1, 0))
  return out


def _spec(c):
  return {'p': c.p, 'a': c.a_literal, 'b': c.b, 'gx': c.g[0], 'gy': c.g[1], 'n': c.n}


def _from_spec(s):
  c = rec.Curve(s['p'], s['a'], s['b'], (s['gx'], s['gy']), s['n'], 1, 'mid')
  c.a_literal = s['a']
  return c


_mult_cache = {}


def _multiples(c, upto):
  """[0*G, 1*G, ..., upto*G] by repeated addition (reference)."""
  key = (c.p, c.a, c.b, c.g)
  lst = _mult_cache.setdefault(key, [None])
  while len(lst) <= upto:
    lst.append(c.add(lst[-1], c.g))
  return lst


def case_batchdl(curve, bound, xs):
  """xs: list of private keys (None = infinity, 'big' = far outside the bound)."""
  w = world.load()
  c = _from_spec(curve)
  L = rec.to_lib(c, w.ec_util)
  return _batchdl_on(L, c, bound, xs)


def _batchdl_on(L, c, bound, xs):
  mult = _multiples(c, max([bound] + [x for x in xs if isinstance(x, int)]))
  pts = []
  for x in xs:
    if x is None:
      pts.append((None, None))
    elif x == 'big':
      pts.append(rec.lp(c.mul(c.g, c.n // 2 + 3)))
    else:
      pts.append(rec.lp(mult[x]))
  st, res = guarded(L.BatchDL, pts, bound)
  if st == 'exc':
    return ['BatchDL(%d points %r, bound=%d) raised %s' % (len(xs), xs, bound, res)]
  out = []
  for x, got in zip(xs, res):
    want = 0 if x is None else x
    if isinstance(want, int) and want < bound:
      if got is None or int(got) % c.n != want:
        out.append('BatchDL(points with logs %r, bound=%d) returned %r for the point %d*G' %
                   (xs, bound, got, want))
    elif got is not None:
      P = rec.lp(c.mul(c.g, c.n // 2 + 3)) if x == 'big' else rec.lp(mult[x])
      if rec.rp(L.Multiply(L.g, int(got))) != rec.rp(P):
        out.append('BatchDL returned a wrong logarithm %r for a point outside the bound' % got)
  return out


BOUNDS = list(range(1, 41)) + [64, 100, 127, 128, 129, 255, 256, 257, 1000, 1023, 1024, 1025]


def dl_complete(curve, lengths, bounds):
  w = world.load()
  c = _from_spec(curve)
  r = Result()
  for ln in lengths:
    for B in bounds:
      table = int((B * ln)**0.5)
      if B + 4 * table + 4 >= c.n // 2:
        continue
      # every x at every position: a sliding assignment covers (x, position) pairs
      # completely with ceil(B/ln) calls per rotation
      for rot in range(ln):
        for start in range(0, B, ln):
          xs = []
          for j in range(ln):
            x = start + (j + rot) % ln
            xs.append(x if x < B else ('big' if (x + rot) % 2 else None))
          L = rec.to_lib(c, w.ec_util)  # fresh curve object: no cached table
          bad = _batchdl_on(L, c, B, xs)
          r.ev('B<=40' if B <= 40 else 'B>40', any(isinstance(x, int) and x > 0 for x in xs),
               len(xs))
          r.transitions += 1
          for b in bad[:1]:
            r.violation(b, {'fn': 'batchdl', 'args': {'curve': curve, 'bound': B, 'xs': xs}})
          if len(r.violations) > 10:
            return r
  r.states += 1
  r.sample({'curve': curve, 'list_lengths': lengths, 'bounds': [bounds[0], bounds[-1]],
            'per_call': 'every x in [0,B) at every list position'})
  return r


# ---- differences -----------------------------------------------------------------

def _diff_on(L, c, xs, others, max_diff):
  mult = _multiples(c, max(xs + others + [1]))
  pts = [rec.lp(mult[x]) for x in xs]
  ops = [rec.lp(mult[x]) for x in others]
  st, res = guarded(L.BatchDLOfDifferences, pts, ops if others else None, max_diff)
  if st == 'exc':
    return ['BatchDLOfDifferences(keys %r, others %r, max_diff=%d) raised %s' %
            (xs, others, max_diff, res)]
  out = []
  allx = xs + others
  for i, x in enumerate(xs):
    partners = [y for j, y in enumerate(allx) if j != i and 0 < abs(x - y) < max_diff]
    got = res[i]
    if partners and got is None:
      out.append('BatchDLOfDifferences(keys %r, others %r, max_diff=%d): key %d has a partner '
                 'at distance < max_diff but is not flagged' % (xs, others, max_diff, x))
    if got is not None:
      # 'key - (x, y) = k * G'
      try:
        lhs, rhs = got.split('=')
        k = int(rhs.split('*')[0])
        px, py = lhs[lhs.index('(') + 1:lhs.index(')')].split(',')
        Q = (int(px, 16), int(py, 16))
      except Exception:  # pylint: disable=broad-except
        out.append('unparsable relation %r' % got)
        continue
      P = mult[x]
      if c.add(P, c.neg(Q)) != c.mul(c.g, k):
        out.append('BatchDLOfDifferences recorded a false relation %r for key %d*G' % (got, x))
      elif not partners and k == 0:
        out.append('identical keys were flagged: %r' % got)
  return out


def case_diff(curve, xs, others, max_diff):
  w = world.load()
  c = _from_spec(curve)
  return _diff_on(rec.to_lib(c, w.ec_util), c, list(xs), list(others), max_diff)


def diff_complete(curve, window, part, nparts):
  w = world.load()
  c = _from_spec(curve)
  r = Result()
  idx = 0
  base = 1000
  for md in list(range(0, 65)):
    if 4 * md + 2 * window + base + 10 >= c.n // 2:
      continue
    for d1 in range(0, window):
      idx += 1
      if idx % nparts != part:
        continue
      for d2 in range(0, window):
        for layout in (0, 1, 2, 3, 4, 5, 6):
          x1, x2 = base + d1, base + d2
          if layout == 0:
            xs, others = [x1, x2], []
          elif layout == 1:
            xs, others = [x1], [x2]
          elif layout == 2:
            xs, others = [x1, base + 5000, x2], [base + 9000]
          elif layout == 3:
            # a far key occurs twice in front of the pair
            xs, others = [base + 5000, base + 7000, base + 5000, x1, x2], []
          elif layout == 4:
            xs, others = [base + 5000, base + 5000, x1, base + 7000, x2], [base + 9000]
          elif layout == 5:
            # the history list names one far key twice; the pair is inside the batch
            xs, others = [x1, x2], [base + 9000, base + 9000]
          else:
            xs, others = [x1, base + 5000, x2], [base + 9000, base + 8000, base + 9000, x1]
          L = rec.to_lib(c, w.ec_util)
          bad = _diff_on(L, c, xs, others, md)
          r.ev('diff/%s' % ('within' if 0 < abs(d1 - d2) < md else (
              'equal' if d1 == d2 else 'outside')), True)
          r.transitions += 1
          for b in bad[:1]:
            r.violation(b, {'fn': 'diff', 'args': {'curve': curve, 'xs': xs, 'others': others,
                                                   'max_diff': md}})
          if len(r.violations) > 10:
            return r
  r.states += 1
  r.sample({'curve': curve, 'window': window, 'max_diff': '0..64', 'layouts':
            ['two keys', 'key + history key', 'three keys + history key',
             'duplicated far key before the pair (2 variants)',
             'history list with a duplicated key (2 variants)']})
  return r


# ---- histories over the cached table ----------------------------------------------------

def _ops(c):
  return [('dl', 1, 4), ('dl', 3, 30), ('dl', 2, 200), ('dl', 6, 1024), ('dl', 1, 1024),
          ('diff', 8), ('diff', 64), ('diff', 40), ('diff', 1)]


def _apply(L, c, op):
  mult = _multiples(c, 1100)
  if op[0] == 'dl':
    _, ln, B = op
    pts = [rec.lp(mult[(7 * j + 3) % B]) for j in range(ln)]
    L.BatchDL(pts, B)
  else:
    L.BatchDLOfDifferences([rec.lp(mult[500]), rec.lp(mult[500 + max(op[1] - 1, 1)])], None,
                           op[1])


def _state_key(L):
  h = hashlib.sha256()
  h.update(str(int(L._table_size)).encode())  # pylint: disable=protected-access
  tab = L._table  # pylint: disable=protected-access
  h.update(str(len(tab)).encode())
  h.update(repr(sorted((-1 if k is None else int(k), int(v)) for k, v in tab.items())[:50]).encode())
  extra = sorted(k for k in vars(L) if k not in ('a', 'b', 'mod', 'g', 'n', 'name', 'h',
                                                  '_cache', '_table', '_table_size'))
  h.update(repr([(k, repr(getattr(L, k))[:80]) for k in extra]).encode())
  return h.hexdigest()[:16]


def _probe(L, c):
  """Complete probes in the current state; returns violation texts."""
  out = []
  for ln, B in ((1, 30), (3, 30), (2, 257)):
    for start in range(0, B, ln):
      xs = [x if x < B else None for x in range(start, start + ln)]
      out += _batchdl_on(L, c, B, xs)
      if out:
        return out
  for md in (1, 2, 9, 40, 64):
    for d in range(0, 70, 3):
      out += _diff_on(L, c, [700, 700 + d], [], md)
      out += _diff_on(L, c, [700 + d], [700], md)
      if out:
        return out
  return out


def case_history(curve, hist):
  w = world.load()
  c = _from_spec(curve)
  L = rec.to_lib(c, w.ec_util)
  for op in hist:
    _apply(L, c, tuple(op))
  bad = _probe(L, c)
  return ['after the calls %r on the same curve object: %s' % (hist, b) for b in bad[:2]]


def histories(curve, max_depth):
  w = world.load()
  c = _from_spec(curve)
  r = Result()
  ops = _ops(c)
  L0 = rec.to_lib(c, w.ec_util)
  seen = {_state_key(L0): []}
  frontier = collections.deque([[]])
  for b in _probe(L0, c):
    r.violation('in the initial state: ' + b, {'fn': 'history', 'args': {'curve': curve,
                                                                         'hist': []}})
  depth = 0
  while frontier:
    hist = frontier.popleft()
    if len(hist) >= max_depth:
      r.caps_hit.append('depth cap %d' % max_depth)
      continue
    for op in ops:
      L = rec.to_lib(c, w.ec_util)
      for o in hist:
        _apply(L, c, o)
      if _state_key(L) not in seen:
        raise RuntimeError('replay divergence on %r' % (hist,))
      st, _ = guarded(_apply, L, c, op)
      r.transitions += 1
      r.ev('history/%s' % op[0], True)
      if st == 'exc':
        r.violation('call %r after %r raised' % (op, hist),
                    {'fn': 'history', 'args': {'curve': curve, 'hist': [list(o) for o in hist + [op]]}})
        continue
      k = _state_key(L)
      new = k not in seen
      bad = _probe(L, c) if new or len(hist) < 1 else []
      for b in bad[:1]:
        r.violation('after the calls %r on the same curve object: %s' % (hist + [op], b),
                    {'fn': 'history', 'args': {'curve': curve,
                                               'hist': [list(o) for o in hist + [op]]}})
        if len(r.violations) > 5:
          return r
      if new:
        seen[k] = hist + [op]
        frontier.append(hist + [op])
        depth = max(depth, len(hist) + 1)
  r.states = len(seen)
  r.extra['max_depth'] = depth
  r.extra['fixpoint_reached'] = not r.caps_hit
  r.sample({'curve': curve, 'ops': [list(o) for o in ops], 'table_states': len(seen),
            'probe_in_every_state': 'all x<B for 3 (l,B) + difference grid'})
  return r


# ---- named curves: structured private keys ---------------------------------------------------

def _structured_keys(n, batch):
  """Private keys of the documented weak forms, with the words that sit on table /
  giant-step boundaries for this batch size."""
  bits = n.bit_length()
  nmult = len(range(0, bits - 24, 8)) + max(0, bits // 32 - 1)
  table = int((2**32 * batch * nmult)**0.5)
  t = 2 * table - 1
  words = [1, 2, 0x10001, 0x80000000, 0xFFFFFFFF, table - 1, table, table + 1, t - 1, t, t + 1,
           2 * t, 2 * t + 1, (2**32 // t) * t, 0xFFFFFFFF - t, 0x01000000, 0x01FFFFFF, 0x12345678]
  words = [x for x in dict.fromkeys(words) if 0 < x < 2**32]
  keys = []
  for j in range(0, bits, 8):
    for v in (words[(j // 8) % len(words)], words[(j // 8 + 5) % len(words)], 0x01FFFFFF,
              0x01000000, 0xFFFFFFFF):
      x = v << j
      if 0 < x < n and x.bit_length() <= bits:
        keys.append(('shift%d' % j, x))
  for reps in range(2, bits // 32 + 1):
    for v in (words[reps % len(words)], 0xFFFFFFFF, 1):
      x = sum(v << (32 * i) for i in range(reps))
      if 0 < x < n:
        keys.append(('rep%d' % reps, x))
  return list(dict.fromkeys(keys))


def case_named(curve_id, xs):
  w = world.load()
  L = w.ec_util.CURVE_FACTORY[curve_id]
  c = rec.Curve(int(L.mod), int(L.a), int(L.b), (int(L.g[0]), int(L.g[1])), int(L.n))
  keys = []
  for x in xs:
    P = c.mul(c.g, x)
    keys.append(art.ec_key(curve_id, P[0], P[1]))
  st, ret = guarded(w.ec_single_checks.CheckWeakECPrivateKey().Check, keys)
  if st == 'exc':
    return ['CheckWeakECPrivateKey raised %s on %s' % (ret, L.name)]
  out = []
  for x, k in zip(xs, keys):
    e = art.entry(k.test_info, 'CheckWeakECPrivateKey')
    dl = art.attached(k.test_info, 'DISCRETE_LOG')
    if e is None or not e[0] or dl is None or int(dl, 16) != x:
      out.append('%s: the key with private key %#x (32-bit value shifted by a multiple of 8 bits '
                 '/ repeated 32-bit word) is not flagged with that key: entry %r, recorded %r' %
                 (L.name, x, e, dl))
  return out


def named(curve_id, chunk, nchunks):
  w = world.load()
  r = Result()
  L = w.ec_util.CURVE_FACTORY[curve_id]
  allk = _structured_keys(int(L.n), 16)
  mine = allk[chunk::nchunks]
  for i in range(0, len(mine), 16):
    batch = mine[i:i + 16]
    bad = case_named(curve_id, [x for _, x in batch])
    r.ev('named/%s' % L.name, True, len(batch))
    r.transitions += 1
    for b in bad[:3]:
      r.violation(b, {'fn': 'named', 'args': {'curve_id': curve_id,
                                              'xs': [x for _, x in batch]}},
                  key={'fn': 'named', 'curve': L.name, 'what': b[:120]})
  r.states += 1
  r.sample({'named_curve': L.name, 'structured_keys': len(allk),
            'forms': 'every byte shift x 5 words; every repetition count x 3 words'})
  return r


CASES = {'batchdl': case_batchdl, 'diff': case_diff, 'history': case_history,
         'named': case_named}


def plan(tier, seed):
  thorough = tier == 'thorough'
  T = []
  mids = _mid_curves(seed, thorough)
  for c in mids:
    for ln in (1, 2, 3, 4, 5, 6):
      bounds = [B for B in BOUNDS if thorough or B <= 40 or ln <= 3]
      T.append(Task('dl-all-x', 'dl_complete', {'curve': _spec(c), 'lengths': [ln],
                                                'bounds': bounds},
                    bound='every x in [0,B) at every position, B in 1..40 + 12 larger bounds, '
                    'list lengths 1..6, on %d mid-size curves' % len(mids),
                    weight=sum(bounds) * ln * 300))
    for part in range(8):
      T.append(Task('differences-all-pairs', 'diff_complete',
                    {'curve': _spec(c), 'window': 70 if thorough else 34, 'part': part,
                     'nparts': 8},
                    bound='all (x1,x2) in a window x all max_diff 0..64 x 5 layouts',
                    weight=65 * 40 * 40 * 3 * 100 / 8))
    T.append(Task('table-histories', 'histories', {'curve': _spec(c),
                                                   'max_depth': 4 if thorough else 3},
                  bound='BFS over call histories to the fixpoint of the table-size lattice',
                  weight=5e7))
  w = world.load()
  ids = [int(cid) for cid, L in w.ec_util.CURVE_FACTORY.items() if L is not None]
  if not thorough:
    # the curve with an order length that is not a multiple of 8, the largest, the smallest,
    # plus one rotating with the seed
    pick = {5}
    pick.add(sorted(set(ids) - pick)[seed % (len(ids) - 1)])
    ids = [i for i in ids if i in pick]
  for cid in ids:
    nch = 4
    for ch in range(nch):
      T.append(Task('named-structured-keys', 'named', {'curve_id': cid, 'chunk': ch,
                                                       'nchunks': nch}, complete=True,
                    bound='every byte shift and repetition count on %s named curves' %
                    ('all nine' if thorough else '2 of the 9 (secp521r1 + one rotating)'), weight=2e8))
  return T
