"""C04 -- RSA keys whose primes are close in a documented sense are always
factored."""
import itertools

from pmc import art, gen_rsa as g, world
from pmc.core import Result, Task, guarded
from pmc.refs import nt

ID = 'C04'
LEVEL = 'exploration'
LEVEL_TEXT = ('Bounded-exhaustive exploration of the four closeness criteria: (a) every pair of '
              'distinct odd primes below 2^10 (2^11) x 43 step bounds, plus 64..2048-bit '
              'instances on both sides of the threshold: Fermat factors exactly when (p+q)/2 - '
              'ceil(sqrt n) < bound; (b) every admissible split (r, s) for 32/48/64-bit primes and '
              'a stride grid for 128..1024-bit primes x 4 filler patterns: Fermat or the '
              'equal-high-and-low-bits check records both primes; (c) every (prime size, '
              'documented difference) x 16 (64) base primes: the upper-difference check records '
              'both primes; (d) every listed unseeded output x top-bit variants: the unseeded check '
              'records both primes.')
TECHNIQUE = ('bounded-exhaustive enumeration of small prime pairs / all admissible splits / all '
             'table entries on the real checks vs. closed-form criteria (M1)')
RULE = ('every grid point of each sub-space; distinct by construction; non-trivial = the instance '
        'lies inside the stated region (must be factored) -- outside-region instances are counted '
        'separately in the exactness sub-space')
ASSUMPTIONS = ['proto/pybind shims of pmc.world', 'gmpy2 next_prime / primality',
               'cofactors and fillers are fixed deterministic values (DRBG), rotated by '
               'VERIF_SEED only in the exact sub-space (a)']

STEPS = list(range(1, 41)) + [100, 1000, 100000]


def _recorded(key):
  return art.factors(key.test_info)


def case_fermat(p, q, s):
  w = world.load()
  n = p * q
  stat = g.fermat_steps(p, q)
  want = stat < s
  out = []
  st, res = guarded(w.rsa_util.FermatFactor, n, s)
  if st == 'exc':
    return ['FermatFactor(%d, %d) raised %s' % (n, s, res)]
  got = res is not None and sorted(int(x) for x in res) == sorted([p, q])
  if got != want:
    out.append('FermatFactor(n=%d*%d, max_steps=%d) -> %r; (p+q)/2 - ceil(sqrt n) = %d, so it '
               'must%s factor' % (p, q, s, res, stat, '' if want else ' not'))
  if n.bit_length() >= 64:
    k = art.rsa_key(n)
    st, ret = guarded(w.rsa_single_checks.CheckFermat(s).Check, [k])
    f = _recorded(k)
    got = st == 'ok' and ret is True and f == frozenset([p, q])
    if got != want or (not want and (ret or f)):
      out.append('CheckFermat(max_steps=%d) on a %d-bit modulus with statistic %d: returned %r, '
                 'factors %s' % (s, n.bit_length(), stat, ret, 'recorded' if f else 'none'))
  return out


def fermat_small(lo, hi, pmax):
  r = Result()
  primes = [x for x in nt.sieve(pmax) if x > 2]
  for i in range(lo, min(hi, len(primes))):
    p = primes[i]
    for q in primes[i + 1:]:
      stat = g.fermat_steps(p, q)
      for s in STEPS[:-1]:
        if abs(stat - s) > 3 and s not in (1, 40, 100, 1000):
          # far from the threshold both sides behave identically; keep the decisive ones
          continue
        bad = case_fermat(p, q, s)
        r.ev('fermat/%s' % ('inside' if stat < s else 'outside'), abs(stat - s) <= 1)
        for b in bad:
          r.violation(b, {'fn': 'fermat', 'args': {'p': p, 'q': q, 's': s}})
    if len(r.violations) > 10:
      break
  r.sample({'prime_pairs': 'p index [%d,%d), q > p, primes < %d' % (lo, hi, pmax),
            'step_bounds': 'all bounds within 3 of the statistic + {1,40,100,1000}'})
  return r


def fermat_big(seed):
  r = Result()
  for bits in (64, 96, 128, 512, 1024, 2048):
    for i in range(3):
      p = nt.rand_prime('c04f-%d-%d-%d' % (seed, bits, i), bits // 2)
      for target in (0, 1, 5, 39, 40, 41, 99, 100, 101, 999, 1000, 1001, 99999, 100000, 100001):
        # |p - q| ~ sqrt(8 * target * sqrt(n)): walk q upward until the statistic crosses
        d = nt.isqrt(8 * max(target, 0) * p) + 1
        q = nt.next_prime(p + d)
        for _ in range(40):
          st = g.fermat_steps(p, q)
          if st >= target:
            break
          q = nt.next_prime(q + max(1, d // 64))
        for s in (1, 40, 100, 1000, 100000):
          st = g.fermat_steps(p, q)
          bad = case_fermat(p, q, s)
          r.ev('fermat-big/%s' % ('inside' if st < s else 'outside'), abs(st - s) < max(3, s // 10))
          for b in bad:
            r.violation(b, {'fn': 'fermat', 'args': {'p': p, 'q': q, 's': s}})
  r.sample({'modulus_bits': [64, 96, 128, 512, 1024, 2048], 'statistic_targets': 'around 1, 40, '
            '100, 1000, 100000'})
  return r


# ---- (b) equal high and low bits ----------------------------------------------------------------

def case_hle(pbits, rr, ss, filler):
  w = world.load()
  d = g.high_low_equal(pbits, rr, ss, filler)
  if d is None:
    return []
  n, p, q = d['n'], d['p'], d['q']
  k1, k2 = art.rsa_key(n), art.rsa_key(n)
  st1, r1 = guarded(w.rsa_single_checks.CheckFermat().Check, [k1])
  st2, r2 = guarded(w.rsa_single_checks.CheckHighAndLowBitsEqual().Check, [k2])
  if 'exc' in (st1, st2):
    return ['check raised on the (r=%d, s=%d) instance: %r %r' % (rr, ss, r1, r2)]
  ok = _recorded(k1) == frozenset([p, q]) or _recorded(k2) == frozenset([p, q])
  if not ok:
    return ['primes of %d bits agreeing on the %d lowest and %d highest bits (r+s = %d >= L/4+2 = '
            '%d) are factored neither by CheckFermat nor by CheckHighAndLowBitsEqual' %
            (pbits, rr, ss, rr + ss, n.bit_length() // 4 + 2)]
  return []


def _splits(pbits, stride):
  L = 2 * pbits
  need = L // 4 + 2
  out = []
  for rr in range(3, pbits - 2):
    for ss in range(1, pbits - rr - 1):
      if rr + ss < need or pbits - rr - ss < 2:
        continue
      if stride > 1 and (rr % stride or (rr + ss - need) % stride) and rr + ss != need:
        continue
      out.append((rr, ss))
  return out


def hle(pbits, stride, part, nparts):
  r = Result()
  for i, (rr, ss) in enumerate(_splits(pbits, stride)):
    if i % nparts != part:
      continue
    for filler in range(4):
      bad = case_hle(pbits, rr, ss, filler)
      r.ev('hle/%s' % ('boundary' if rr + ss <= pbits // 2 + 3 else 'interior'), True)
      for b in bad:
        r.violation(b, {'fn': 'hle', 'args': {'pbits': pbits, 'rr': rr, 'ss': ss,
                                              'filler': filler}})
  r.sample({'prime_bits': pbits, 'splits': len(_splits(pbits, stride)), 'stride': stride,
            'fillers': 4})
  return r


# ---- (c) upper differences -----------------------------------------------------------------------

KS = (100, 128, 160, 256, 2, 3)


def case_updiff(L, k, idx):
  w = world.load()
  d = g.upper_diff(L, k, idx)
  key = art.rsa_key(d['n'])
  st, ret = guarded(w.rsa_single_checks.CheckSmallUpperDifferences().Check, [key])
  if st == 'exc':
    return ['CheckSmallUpperDifferences raised %s' % ret]
  if ret is not True or _recorded(key) != frozenset([d['p'], d['q']]):
    return ['q = next_prime(p + 2^(L-%d)) with L = %d (instance %d) is not factored by '
            'CheckSmallUpperDifferences (returned %r)' % (k, L, idx, ret)]
  return []


def updiff(L, count):
  r = Result()
  for k in KS:
    if L - k < 2:
      continue
    for idx in range(count):
      bad = case_updiff(L, k, idx)
      r.ev('updiff/k=%d' % k, True)
      for b in bad:
        r.violation(b, {'fn': 'updiff', 'args': {'L': L, 'k': k, 'idx': idx}},
                    key={'fn': 'updiff', 'L': L, 'k': k, 'idx': idx})
  r.sample({'prime_bits': L, 'differences': ['2^(L-%d)' % k for k in KS], 'base_primes': count})
  return r


# ---- (d) unseeded outputs -----------------------------------------------------------------------------

def case_unseeded(size, index, variant):
  w = world.load()
  vals = sorted(w.unseeded_rands.size_unseeded_map[size])
  v = vals[index]
  if variant == 0 and v.bit_length() != size:
    return []
  d = g.unseeded(v, variant, size, 'c04')
  key = art.rsa_key(d['n'])
  st, ret = guarded(w.rsa_single_checks.CheckUnseededRand().Check, [key])
  if st == 'exc':
    return ['CheckUnseededRand raised %s' % ret]
  if ret is not True or _recorded(key) != frozenset([d['p'], d['q']]):
    return ['modulus with p = next_prime(listed %d-bit unseeded output #%d, top-bit variant %d) is '
            'not factored by CheckUnseededRand (returned %r)' % (size, index, variant, ret)]
  return []


def unseeded(size, lo, hi, stride):
  w = world.load()
  r = Result()
  total = len(w.unseeded_rands.size_unseeded_map[size])
  for index in range(lo, min(hi, total), stride):
    for variant in (0, 1, 2):
      bad = case_unseeded(size, index, variant)
      r.ev('unseeded/%d' % size, True)
      for b in bad:
        r.violation(b, {'fn': 'unseeded', 'args': {'size': size, 'index': index,
                                                   'variant': variant}})
  r.sample({'size': size, 'entries': [lo, min(hi, total)], 'stride': stride, 'variants': 3})
  return r


def case_unseeded_mixed(sizes, index, mode):
  """Keys whose primes come from listed unseeded outputs of *different* sizes, judged by one
  check object: mode 'batch' = one Check() call, 'calls' = one call per key on the same
  object, 'entry' = paranoid.CheckAllRSA called once per key (per-process check instances)."""
  w = world.load()
  ds = []
  for j, size in enumerate(sizes):
    vals = sorted(w.unseeded_rands.size_unseeded_map[size])
    ds.append(g.unseeded(vals[(index + 7 * j) % len(vals)], 1, size, 'c04m'))
  keys = [art.rsa_key(d['n']) for d in ds]
  if mode == 'batch':
    st, ret = guarded(w.rsa_single_checks.CheckUnseededRand().Check, keys)
  elif mode == 'calls':
    obj = w.rsa_single_checks.CheckUnseededRand()
    for k in keys:
      st, ret = guarded(obj.Check, [k])
      if st == 'exc':
        break
  else:
    for k in keys:
      st, ret = guarded(w.paranoid.CheckAllRSA, [k])
      if st == 'exc':
        break
  if st == 'exc':
    return ['CheckUnseededRand (%s, prime sizes %s) raised %s' % (mode, sizes, ret)]
  out = []
  for size, d, k in zip(sizes, ds, keys):
    if _recorded(k) != frozenset([d['p'], d['q']]):
      out.append('modulus with a %d-bit prime next to a listed unseeded output is not factored '
                 'when the same check object judges prime sizes %s (%s, output #%d)' %
                 (size, sizes, mode, index))
  return out


def unseeded_mixed(index, thorough):
  w = world.load()
  r = Result()
  sizes = sorted(w.unseeded_rands.size_unseeded_map)
  if not thorough:
    sizes = [s for s in sizes if s <= 2048]
  import itertools
  for a, b in itertools.permutations(sizes, 2):
    for mode in ('batch', 'calls') + (('entry',) if max(a, b) <= 1024 else ()):
      bad = case_unseeded_mixed([a, b], index, mode)
      r.ev('unseeded-mixed/%s' % mode, True)
      r.transitions += 1
      for x in bad[:1]:
        r.violation(x, {'fn': 'unseeded_mixed', 'args': {'sizes': [a, b], 'index': index,
                                                         'mode': mode}})
    if len(r.violations) > 5:
      break
  r.sample({'prime_sizes': sizes, 'ordered_pairs': 'all', 'modes': ['batch', 'calls', 'entry'],
            'output_index': index})
  return r


CASES = {'fermat': case_fermat, 'hle': case_hle, 'updiff': case_updiff,
         'unseeded': case_unseeded, 'unseeded_mixed': case_unseeded_mixed}


def plan(tier, seed):
  thorough = tier == 'thorough'
  T = []
  pmax = 2**11 if thorough else 2**10
  nprimes = len(nt.sieve(pmax)) - 1
  chunk = 12
  for lo in range(0, nprimes, chunk):
    T.append(Task('fermat-exact-small', 'fermat_small', {'lo': lo, 'hi': lo + chunk, 'pmax': pmax},
                  bound='all pairs of distinct odd primes < %d x every step bound within 3 of the '
                  'statistic plus {1,40,100,1000}' % pmax, weight=(nprimes - lo) * chunk * 300))
  T.append(Task('fermat-exact-big', 'fermat_big', {'seed': seed}, complete=False,
                bound='64..2048-bit instances on both sides of 5 thresholds', weight=5e7))
  for pbits, stride, nparts in ((32, 1, 4), (48, 1, 8), (64, 1, 16)):
    for part in range(nparts):
      T.append(Task('high-low-splits', 'hle', {'pbits': pbits, 'stride': stride, 'part': part,
                                               'nparts': nparts},
                    bound='every admissible (r, s) for 32/48/64-bit primes; stride grid (incl. the '
                    'whole boundary r+s = L/4+2) for 128/256/512/1024-bit primes; 4 fillers',
                    weight=pbits**2 * 5e3 / nparts))
  for pbits, stride in ((128, 8), (256, 16), (512, 32)) + (((1024, 64),) if thorough else ()):
    for part in range(8):
      T.append(Task('high-low-splits', 'hle', {'pbits': pbits, 'stride': stride, 'part': part,
                                               'nparts': 8}, bound='',
                    weight=pbits**2 * 2e3 / stride))
  for L in (384, 512, 768, 1024, 1536, 2048):
    T.append(Task('upper-differences', 'updiff', {'L': L, 'count': 64 if thorough else 16},
                  bound='6 prime sizes x 6 documented differences x %d base primes' %
                  (64 if thorough else 16), weight=L**2 * 30))
  w = world.load()
  for size, vals in w.unseeded_rands.size_unseeded_map.items():
    tot = len(vals)
    stride = 1 if thorough else (16 if size >= 4096 else 8)
    per_task = stride * (1 if size >= 2048 else 4)
    for lo in range(0, tot, per_task):
      T.append(Task('unseeded-outputs', 'unseeded',
                    {'size': size, 'lo': lo, 'hi': lo + per_task, 'stride': stride},
                    complete=thorough,
                    bound='%s listed unseeded output x 3 top-bit variants' %
                    ('every' if thorough else 'every 8th (16th for 4096 bits)'),
                    weight=size**3 / 100))
  for index in ((seed % 80, (seed + 41) % 80) if not thorough else range(0, 80, 10)):
    T.append(Task('unseeded-mixed-sizes', 'unseeded_mixed', {'index': index,
                                                              'thorough': thorough},
                  bound='every ordered pair of listed prime sizes judged by one check object: in '
                  'one batch, in consecutive calls, through the entry point', weight=3e8))
  return T
