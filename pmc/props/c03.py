"""C03 -- shared-factor detection is exact for every batch shape."""
import itertools
import math

from pmc import art, world
from pmc.core import Result, Task, guarded
from pmc.refs import nt

ID = 'C03'
LEVEL = 'exploration'
RULE = ('M1 product enumeration: (tree) for every batch size N every placement '
        '(i,j) of a shared prime / duplicate / nested value / double partner in a '
        'batch of otherwise pairwise coprime values x every extra-product variant; '
        '(universe) every ordered list up to the stated length over the 16 subset '
        'products of 4 primes; (trees) FastProduct/ExtendedProductTree for every '
        'length; (checks) CheckGCD / CheckGCDN1 on every ordered batch over a '
        '>=64-bit alphabet x every gcd bound. Enumeration is without repetition, so '
        'cases are distinct; non-trivial = reference gcd vector is not all ones '
        '(some key must be flagged) or the batch is empty.')
LEVEL_TEXT = ('Bounded-exhaustive exploration of the real BatchGCD / product-tree / '
              'CheckGCD(N1) code: every batch size 0..130 (260 thorough) with every '
              'placement of a shared prime, duplicate or nested value, and every list '
              'of length <=5 (6) over a 16-value universe, each compared with a '
              'brute-force gcd reference. Complete for those spaces; larger moduli '
              'are represented by a fixed alphabet.')
TECHNIQUE = ('bounded-exhaustive explicit enumeration of batch shapes on the real code '
             'vs. brute-force reference (stateless model checking, M1)')
ASSUMPTIONS = ['proto/pybind shims of pmc.world', 'math.gcd / gmpy2 arithmetic',
               'brute-force reference: gcd(v_i, extra * prod(distinct v_j != v_i))']

P = nt.SMALL_PRIMES[1:]  # odd primes


def ref_batch_gcd(values, other=None):
  out = []
  distinct = set(int(v) for v in values)
  total = 1
  for u in distinct:
    total *= u
  for v in values:
    v = int(v)
    prod = total // v  # product of the distinct values other than v (exact)
    if other:
      prod *= other
    out.append(math.gcd(v, prod))
  return out


def _conv(values, typ):
  if typ == 'mpz':
    import gmpy2
    return [gmpy2.mpz(v) for v in values]
  return [int(v) for v in values]


def case_batchgcd(values, other=None, typ='int'):
  w = world.load()
  exp = ref_batch_gcd(values, other)
  st, got = guarded(w.rsa_util.BatchGCD, _conv(values, typ),
                    *([] if other is None else [other]))
  if st == 'exc':
    return ['BatchGCD(%d values, other=%r) raised %s; expected %s' %
            (len(values), other, got, exp[:8])]
  got = [int(g) for g in got]
  if got != exp:
    return ['BatchGCD(%s, other=%r) = %s, reference %s' %
            (values[:12], other, got[:12], exp[:12])]
  return []


def _base(n):
  """n pairwise coprime 'moduli' p*q."""
  return [P[2 * k] * P[2 * k + 1] for k in range(n)]


def _others(vals, i, q):
  return [None, 1, q, q * vals[i] if vals else q]


def tree_shapes(n_lo, n_hi, typ, others):
  """For every N in [n_lo, n_hi]: all placements."""
  r = Result()
  q = 1000003
  for n in range(n_lo, n_hi + 1):
    base = _base(n)
    variants = []
    variants.append(('coprime', base))
    for i in range(n):
      for j in range(n):
        if i == j:
          continue
        if i < j:
          v = list(base)
          v[j] = P[2 * i] * P[2 * j + 1]  # shares one prime with i
          variants.append(('shared', v))
        v = list(base)
        v[j] = base[i]  # duplicate of i at j
        variants.append(('dup', v))
        v = list(base)
        v[j] = base[i] * P[2 * j]  # nested: v_i divides v_j
        variants.append(('nested', v))
    for i in range(n):
      if n >= 3:
        for d1, d2 in ((1, 2), (1, n - 1), (n // 2, n // 2 + 1)):
          j1, j2 = (i + d1) % n, (i + d2) % n
          if len({i, j1, j2}) < 3:
            continue
          v = list(base)
          v[j1] = P[2 * i] * P[2 * j1 + 1]
          v[j2] = P[2 * i + 1] * P[2 * j2 + 1]
          variants.append(('two-partners', v))
      if n >= 2:
        # value sharing both primes with a *single* partner set (same gcd = v)
        v = list(base)
        v[(i + 1) % n] = base[i] * base[(i + 1) % n]
        variants.append(('absorbs', v))
    for kind, v in variants:
      ovs = _others(v, 0, q) if others else [None]
      for ov in ovs:
        exp = ref_batch_gcd(v, ov)
        nontriv = (n == 0) or any(g != 1 for g in exp)
        bad = case_batchgcd(v, ov, typ)
        r.ev('%s/%s' % (kind, 'flag' if any(g != 1 for g in exp) else 'clean'),
             nontriv)
        if bad:
          r.violation(bad[0], {'fn': 'batchgcd',
                               'args': {'values': v, 'other': ov, 'typ': typ}})
    if n in (0, 3, n_hi):
      r.sample({'N': n, 'kind': variants[-1][0], 'values': variants[-1][1][:6]})
  return r


def universe(first, maxlen):
  """All ordered lists (first element fixed per task) of length <= maxlen over
  the 16 subset products of 4 primes (1 = empty product)."""
  r = Result()
  primes = [3, 5, 7, 11]
  U = sorted(nt.prod(s) for k in range(5) for s in itertools.combinations(primes, k))
  for ln in range(1, maxlen + 1):
    for rest in itertools.product(U, repeat=ln - 1):
      v = [U[first]] + list(rest)
      exp = ref_batch_gcd(v)
      bad = case_batchgcd(v)
      r.ev(tuple(sorted(set(exp)))[:3], any(g != 1 for g in exp))
      if bad:
        r.violation(bad[0], {'fn': 'batchgcd', 'args': {'values': v}})
  r.sample({'first': U[first], 'maxlen': maxlen, 'universe': U})
  return r


def case_trees(values):
  w = world.load()
  out = []
  vals = list(values)
  st, fp = guarded(w.ntheory_util.FastProduct, list(vals))
  prod = nt.prod(vals)
  if st == 'exc' or fp != prod:
    out.append('FastProduct(len %d) = %r, reference %d' % (len(vals), fp, prod))
  if vals:
    st, res = guarded(w.ntheory_util.ExtendedProductTree, list(vals))
    if st == 'exc':
      out.append('ExtendedProductTree(len %d) raised %s' % (len(vals), res))
    else:
      tree, t = res
      if t != sum(prod // v for v in vals):
        out.append('ExtendedProductTree(len %d): T != sum(P/v)' % len(vals))
      if any(t % v != (prod // v) % v for v in vals):
        out.append('ExtendedProductTree(len %d): T mod v != P/v mod v' % len(vals))
      if list(tree[0]) != vals or nt.prod(tree[-1]) != prod or len(tree[-1]) != 1:
        out.append('ExtendedProductTree(len %d): tree levels wrong' % len(vals))
      for a, b in zip(tree, tree[1:]):
        if len(b) != (len(a) + 1) // 2 or any(
            b[k] != nt.prod(a[2 * k:2 * k + 2]) for k in range(len(b))):
          out.append('ExtendedProductTree(len %d): level is not the pairwise '
                     'product of the level below' % len(vals))
          break
  return out


def trees(n_hi):
  r = Result()
  for n in range(0, n_hi + 1):
    for vals in (_base(n), [P[k] for k in range(n)], [2] * n, [1] * n,
                 [k + 2 for k in range(n)]):
      bad = case_trees(vals)
      r.ev('len%%4=%d' % (n % 4))
      for b in bad:
        r.violation(b, {'fn': 'trees', 'args': {'values': vals}})
  r.sample({'lengths': [0, n_hi], 'families': 5})
  return r


# ---- check level ---------------------------------------------------------

def _moduli64():
  """>= 64-bit moduli sharing primes in a known way."""
  ps = [nt.rand_prime('c03p%d' % i, 40) for i in range(6)]
  a = ps[0] * ps[1]
  b = ps[0] * ps[2]        # shares ps[0] with a
  c = ps[3] * ps[4]        # coprime
  d = ps[1] * ps[2]        # shares with a and with b
  e = a * ps[5]            # nested: a | e
  big1 = nt.rand_prime('c03big1', 1024) * nt.rand_prime('c03big2', 1024)
  big2 = nt.rand_prime('c03big1', 1024) * nt.rand_prime('c03big3', 1024)
  return [a, b, c, d, e, big1, big2]


def case_check_gcd(ns):
  w = world.load()
  keys = [art.rsa_key(n) for n in ns]
  exp = ref_batch_gcd(ns)
  st, ret = guarded(w.rsa_aggregate_checks.CheckGCD().Check, keys)
  if st == 'exc':
    return ['CheckGCD.Check(batch of %d) raised %s' % (len(ns), ret)]
  out = []
  if ret is not any(g != 1 for g in exp):
    out.append('CheckGCD returned %r for batch %s, reference gcds %s' %
               (ret, [hex(n)[:14] for n in ns], exp))
  for k, n, g in zip(keys, ns, exp):
    e = art.entry(k.test_info, 'CheckGCD')
    f = art.factors(k.test_info)
    if e is None or e[0] != (g != 1):
      out.append('CheckGCD entry %r for n=%x, reference gcd %x' % (e, n, g))
    if g != 1:
      if not k.test_info.weak:
        out.append('CheckGCD: weak not set for flagged n=%x' % n)
      if f is None or g not in f:
        out.append('CheckGCD: recorded factors %r do not contain gcd %x' % (f, g))
      if f is not None and any(x == 0 or n % x for x in f):
        out.append('CheckGCD: recorded value does not divide n=%x: %r' % (n, f))
    elif f is not None or k.test_info.weak:
      out.append('CheckGCD: clean key n=%x carries factors/weak' % n)
  return out


def _nm1_alphabet():
  r1 = nt.rand_prime('c03r1', 17)
  r2 = nt.rand_prime('c03r2', 129)  # >= 2^128
  r3 = nt.rand_prime('c03r3', 128)  # < 2^128
  fill = [nt.rand_prime('c03f%d' % i, 70) for i in range(5)]
  # n - 1 = 2 * r * filler ; n need not be a semiprime for this check.
  return [2 * r1 * fill[0] + 1, 2 * r1 * fill[1] + 1, 2 * r2 * fill[2] + 1,
          2 * r2 * r1 * fill[3] + 1, 2 * r3 * fill[4] + 1, 2 * r3 * fill[0] + 1,
          (1 << 16) * fill[1] + 1, (1 << 16) * fill[2] * r2 + 1]


def case_check_gcdn1(ns, bound):
  w = world.load()
  keys = [art.rsa_key(n) for n in ns]
  exp = ref_batch_gcd([n - 1 for n in ns])
  st, ret = guarded(w.rsa_aggregate_checks.CheckGCDN1(gcd_bound=bound).Check, keys)
  if st == 'exc':
    return ['CheckGCDN1(%d).Check(batch of %d) raised %s' % (bound, len(ns), ret)]
  out = []
  if ret is not any(g >= bound for g in exp):
    out.append('CheckGCDN1(bound=%d) returned %r, reference gcds %s' %
               (bound, ret, exp))
  for k, n, g in zip(keys, ns, exp):
    e = art.entry(k.test_info, 'CheckGCDN1')
    f = art.factors(k.test_info, 'N-1_FACTORS')
    if e is None or e[0] != (g >= bound):
      out.append('CheckGCDN1(bound=%d) entry %r for n=%x, reference gcd %x' %
                 (bound, e, n, g))
    if g >= bound:
      if f != frozenset([g]):
        out.append('CheckGCDN1: recorded %r, reference gcd %x' % (f, g))
      if not k.test_info.weak:
        out.append('CheckGCDN1: weak not set for flagged n=%x' % n)
    elif f is not None or k.test_info.weak:
      out.append('CheckGCDN1: unflagged key n=%x carries factors/weak' % n)
  return out


def checks(maxlen, part, nparts):
  r = Result()
  alpha = _moduli64()
  idx = 0
  for ln in range(0, maxlen + 1):
    for batch in itertools.product(range(len(alpha)), repeat=ln):
      idx += 1
      if idx % nparts != part:
        continue
      ns = [alpha[i] for i in batch]
      if sum(n.bit_length() > 1000 for n in ns) and ln > 3:
        continue
      exp = ref_batch_gcd(ns)
      bad = case_check_gcd(ns)
      r.ev('gcd:' + ('flag' if any(g != 1 for g in exp) else 'clean'),
           ln == 0 or any(g != 1 for g in exp))
      for b in bad[:1]:
        r.violation(b, {'fn': 'check_gcd', 'args': {'ns': ns}})
  alpha = _nm1_alphabet()
  for ln in range(0, min(maxlen, 3) + 1):
    for batch in itertools.product(range(len(alpha)), repeat=ln):
      idx += 1
      if idx % nparts != part:
        continue
      ns = [alpha[i] for i in batch]
      exp = ref_batch_gcd([n - 1 for n in ns])
      for bound in (1, 2, 3, 1 << 16, (1 << 16) + 1, 1 << 128):
        bad = case_check_gcdn1(ns, bound)
        fl = sum(g >= bound for g in exp)
        r.ev('gcdn1:b%d:%s' % (bound.bit_length(), 'flag' if fl else 'clean'),
             ln == 0 or 0 < fl)
        for b in bad[:1]:
          r.violation(b, {'fn': 'check_gcdn1', 'args': {'ns': ns, 'bound': bound}})
  r.sample({'maxlen': maxlen, 'alphabet_bits': [n.bit_length() for n in alpha]})
  return r


_P33 = None


def _primes33():
  global _P33
  if _P33 is None:
    _P33 = [nt.rand_prime('c03-p33-%d' % i, 33) for i in range(140)]
    assert len(set(_P33)) == len(_P33)
  return _P33


def check_shapes(n_lo, n_hi):
  """CheckGCD on batches of N >= 64-bit moduli with every placement of a shared prime /
  duplicate (the protobuf path: bytes -> mpz -> BatchGCD -> entries and factor records)."""
  r = Result()
  Q = _primes33()
  for n in range(n_lo, n_hi + 1):
    base = [Q[2 * k] * Q[2 * k + 1] for k in range(n)]
    variants = [base]
    for i in range(n):
      for j in range(i + 1, n):
        v = list(base)
        v[j] = Q[2 * i] * Q[2 * j + 1]
        variants.append(v)
        if (i + j) % 5 == 0:
          v = list(base)
          v[j] = base[i]
          variants.append(v)
    for v in variants:
      bad = case_check_gcd(v)
      flagged = len(set(v)) < len(v) or v != base
      r.ev('check-shape/%s' % ('flag' if v != base and len(set(v)) == len(v) else 'clean'),
           v != base)
      for b in bad[:1]:
        r.violation(b, {'fn': 'check_gcd', 'args': {'ns': v}})
    if len(r.violations) > 10:
      break
  r.sample({'CheckGCD_batch_sizes': [n_lo, n_hi], 'placements': 'every (i,j) shared prime, every '
            '5th duplicate'})
  return r


CASES = {
    'batchgcd': case_batchgcd,
    'trees': case_trees,
    'check_gcd': case_check_gcd,
    'check_gcdn1': case_check_gcdn1,
}


def plan(tier, seed):
  thorough = tier == 'thorough'
  nmax = 260 if thorough else 130
  tasks = []
  # sizes grouped so that each task has comparable cost (~N^2 placements)
  n = 0
  step_budget = 60000 if thorough else 20000
  while n <= nmax:
    lo = n
    cost = 0
    while n <= nmax and cost < step_budget:
      cost += 3 * n * n + 1
      n += 1
    tasks.append(Task('tree-shape', 'tree_shapes',
                      {'n_lo': lo, 'n_hi': n - 1, 'typ': 'mpz',
                       'others': (n - 1) <= (130 if thorough else 48)},
                      bound='every N in 0..%d x every (i,j) placement of shared '
                      'prime / duplicate / nested value, 3 double-partner layouts '
                      'per i; extra product in {None,1,q,q*v0} for N<=%d' %
                      (nmax, 130 if thorough else 48), weight=cost))
  tasks.append(Task('tree-shape-int', 'tree_shapes',
                    {'n_lo': 0, 'n_hi': 34, 'typ': 'int', 'others': True},
                    bound='same with Python ints, N in 0..34', weight=1e5))
  ml = 6 if thorough else 5
  for first in range(16):
    tasks.append(Task('small-universe', 'universe', {'first': first, 'maxlen': ml},
                      bound='all ordered lists of length 1..%d over 16 values' % ml,
                      weight=16.0**(ml - 1) * 3))
  tasks.append(Task('product-trees', 'trees', {'n_hi': nmax},
                    bound='every length 0..%d x 5 value families' % nmax, weight=1e4))
  nparts = 16
  for part in range(nparts):
    tasks.append(Task('check-level', 'checks',
                      {'maxlen': 4 if thorough else 3, 'part': part,
                       'nparts': nparts},
                      bound='every ordered batch of size 0..%d over 7 moduli '
                      '(CheckGCD) / 0..3 over 8 moduli x 6 bounds (CheckGCDN1)' %
                      (4 if thorough else 3), weight=3e4))
  top = 64 if thorough else 40
  edges = [0, 16, 24, 30, 35, 40] + ([46, 52, 58, 64] if thorough else [])
  for lo, hi in zip(edges, edges[1:]):
    tasks.append(Task('check-level-shapes', 'check_shapes', {'n_lo': lo + (1 if lo else 0),
                                                             'n_hi': hi},
                      bound='CheckGCD on every batch size 0..%d of >= 64-bit moduli x every '
                      'placement of a shared prime' % top, weight=hi**3 * 30))
  return tasks
