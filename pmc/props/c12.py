"""C12 -- NIST SP 800-22 statistics and p-values are computed as specified."""
import fractions
import itertools
import math

from pmc import world
from pmc.core import Result, Task, guarded
from pmc.refs import nist as rn
from pmc.refs import nt

F = fractions.Fraction
TOL = 1e-9

ID = 'C12'
LEVEL = 'exploration'
LEVEL_TEXT = ('Bounded-exhaustive exploration: every bit string of every length 1..12 (16 '
              'thorough) through every NIST test that accepts it (explicit parameters where the '
              'default ladder needs more data), every class-count vector of the longest-run '
              'test, every length within +-2 of each parameter-selection / insufficient-data '
              'threshold, metamorphic invariances, and the embedded probability tables against '
              'exact derivations; reference = independent transcription of SP 800-22.')
TECHNIQUE = ('bounded-exhaustive enumeration of all short bit strings / class-count vectors / '
             'threshold lengths on the real tests vs. independent SP 800-22 transcription (M1)')
RULE = ('every string of each length x every applicable test/parameter; distinct by '
        'construction; non-trivial = the string is not constant; sub-spaces b-h: every '
        'enumerated vector / length / table entry')
ASSUMPTIONS = ['proto/pybind shims of pmc.world',
               'reference pmc/refs/nist.py (mpmath 40 digits), tolerance 1e-9 abs on p-values',
               'Runs: strings failing the frequency pre-test (|pi-1/2| >= 2/sqrt n) may return '
               'either 0.0 (NIST 2.3.4 step 2) or the erfc formula; constant strings (formula '
               '0/0) must return 0.0',
               'Serial: when the generalized serial statistic is negative the p-value is '
               'undefined by the formula and not constrained',
               'Spectral: odd n not constrained (N0 = .95 n/2 is not an integer count there)',
               'cusum p-values are only required to lie in [0,1] for n >= 100 (NIST 2.13.7); '
               'cusum p-value: statistic checked exactly on all short strings through the '
               'module\'s own p-value map; the map is checked against 2.13.4(4) for n >= 100 '
               'where the summation-limit convention changes p by < 1e-6']


def _pv(x):
  return float(x)


def _close(a, b, tol=TOL):
  if a is None or b is None:
    return False
  a, b = float(a), float(b)
  if math.isnan(a) or math.isnan(b):
    return False
  return abs(a - b) <= tol


def _inrange(p):
  p = float(p)
  return not math.isnan(p) and -1e-12 <= p <= 1 + 1e-9


def _named(res):
  return {k: float(v) for k, v in res}


def check_string(v, n, out):
  """All applicable tests on the n-bit string v; appends violation texts to out."""
  w = world.load()
  N = w.nist
  e = rn.bits_of(v, n)
  const = v == 0 or v == (1 << n) - 1

  def cmp(name, st_got, exp, tol=TOL):
    st, got = st_got
    if st == 'exc':
      out.append('%s(%#x, %d) raised %s; SP 800-22 gives p=%r' % (name, v, n, got, exp))
    elif not _inrange(got):
      out.append('%s(%#x, %d) = %r is not a p-value in [0,1]' % (name, v, n, got))
    elif not _close(got, exp, tol):
      out.append('%s(%#x, %d) = %.12g; SP 800-22 gives %.12g' % (name, v, n, got, exp))

  cmp('Frequency', guarded(N.Frequency, v, n), rn.frequency(e))
  # Runs
  p, pre = rn.runs(e)
  st, got = guarded(N.Runs, v, n)
  if p is None:
    if st == 'exc' or not _close(got, 0.0):
      out.append('Runs(%#x, %d) %s; all bits are equal, so the frequency pre-test of 2.3.4 '
                 'fails and the p-value is 0.0' % (v, n, 'raised ' + got if st == 'exc'
                                                 else '= %r' % got))
  elif st == 'exc' or not _inrange(got) or not (_close(got, p) or (not pre and _close(got, 0))):
    out.append('Runs(%#x, %d) = %r; SP 800-22 gives %.12g' % (v, n, got, p))
  # block frequency
  for m in (2, 3, 4):
    if n // m >= 1:
      blocks = [sum(e[i * m + j] << j for j in range(m)) for i in range(n // m)]
      cmp('BlockFrequencyImpl[m=%d]' % m, guarded(N.BlockFrequencyImpl, blocks, m),
          rn.block_frequency(e, m))
  # serial
  for mm in (2, 3, 4):
    if mm <= n:
      st, res = guarded(N.Serial, v, n, mm)
      if st == 'exc':
        out.append('Serial(%#x, %d, m_max=%d) raised %s' % (v, n, mm, res))
      else:
        d = _named(res)
        for m in range(2, mm + 1):
          p1, p2, d1, d2 = rn.serial(e, m)
          for nm, pe in (('m=%d p-value1' % m, p1), ('m=%d p-value2' % m, p2)):
            if nm not in d:
              out.append('Serial(%#x,%d,%d): missing %r' % (v, n, mm, nm))
            elif pe is None:
              pass  # negative statistic: undefined by the formula
            elif not _inrange(d[nm]) or not _close(d[nm], pe):
              out.append('Serial(%#x, %d, m_max=%d)[%s] = %.12g; SP 800-22 gives %.12g' %
                         (v, n, mm, nm, d[nm], pe))
  # approximate entropy
  for mm in (2, 3):
    if mm + 1 <= n:
      st, res = guarded(N.ApproximateEntropy, v, n, mm)
      if st == 'exc':
        out.append('ApproximateEntropy(%#x, %d, m_max=%d) raised %s' % (v, n, mm, res))
      else:
        d = _named(res)
        for m in range(2, mm + 1):
          pe, chi = rn.apen(e, m)
          nm = 'm=%d' % m
          if pe is None:
            continue
          if nm not in d or not _inrange(d[nm]) or not _close(d[nm], pe, 1e-8):
            out.append('ApproximateEntropy(%#x, %d, m_max=%d)[%s] = %r; SP 800-22 gives '
                       '%.12g' % (v, n, mm, nm, d.get(nm), pe))
  # random walk: cusum statistics through the module's own p-value map
  zf, zb = rn.cusum_z(e)
  st, res = guarded(N.RandomWalk, v, n)
  if st == 'exc':
    out.append('RandomWalk(%#x, %d) raised %s; cusum statistics are z_fwd=%d z_rev=%d' %
               (v, n, res, zf, zb))
  else:
    d = _named(res)
    for nm, z in (('cumulative sums forward', zf), ('cumulative sums reverse', zb)):
      exp = N.CumulativeSumsPValue(n, z)
      if nm not in d:
        out.append('RandomWalk(%#x,%d): missing %r' % (v, n, nm))
      elif not _close(d[nm], exp):
        out.append('RandomWalk(%#x, %d)[%s] = %.12g; the statistic is z=%d for which the '
                   'p-value map gives %.12g' % (v, n, nm, d[nm], z, exp))
      elif n >= 100 and not _inrange(d[nm]):
        out.append('RandomWalk(%#x, %d)[%s] = %r is not in [0,1]' % (v, n, nm, d[nm]))
  # spectral
  if n % 2 == 0 and n >= 2:
    pe, margin = rn.spectral(e)
    if margin > 1e-7:
      cmp('Spectral', guarded(N.Spectral, v, n), pe)
  # non-overlapping templates, m = 2
  for nb in (1, 2):
    if n // nb >= 2:
      st, res = guarded(N.NonOverlappingTemplateMatching, v, n, nb, 2)
      if st == 'exc':
        out.append('NonOverlappingTemplateMatching(%#x,%d,blocks=%d,m=2) raised %s' %
                   (v, n, nb, res))
      else:
        d = _named(res)
        for t in (1, 2):
          nm = "template '%s'" % format(t, '02b')
          pe = rn.nonoverlapping(e[:(n // nb) * nb], nb, 2, t)
          if nm not in d or not _inrange(d[nm]) or not _close(d[nm], pe):
            out.append('NonOverlappingTemplateMatching(%#x,%d,blocks=%d,m=2)[%s] = %r; SP '
                       '800-22 gives %.12g' % (v, n, nb, nm, d.get(nm), pe))
  # overlapping templates on 8-bit blocks
  if n >= 8:
    blocks = [sum(e[i * 8 + j] << j for j in range(8)) for i in range(n // 8)]
    eb = [e[i * 8:(i + 1) * 8] for i in range(n // 8)]
    for m in (2, 3):
      pe = rn.overlapping(eb, 8, m)
      if pe != 'undefined':
        cmp('OverlappingTemplateMatchingImpl[n=8,m=%d]' % m,
            guarded(N.OverlappingTemplateMatchingImpl, blocks, 8, m), pe, 1e-8)
  # matrix rank
  for r_, c_ in ((2, 2), (2, 3), (3, 3)):
    if n >= r_ * c_:
      k_ = r_
      pe = rn.matrix_rank_test(e, r_, c_, k_)
      if pe != 'insufficient':
        cmp('BinaryMatrixRank[r=%d,c=%d,k=%d]' % (r_, c_, k_),
            guarded(N.BinaryMatrixRank, v, n, r_, c_, k_, False), pe)
  # universal
  for L, q in ((2, 1), (2, 2), (2, 3)):
    if n // L - q >= 1:
      cmp('UniversalImpl[L=%d,Q=%d]' % (L, q), guarded(N.UniversalImpl, v, n, L, q),
          rn.universal(e[:(n // L) * L], L, q))
  # linear complexity
  for M in (4, 5, 6, 7, 8):
    if n // M >= 1:
      from pmc.refs import lfsr
      blocks = [sum(e[i * M + j] << j for j in range(M)) for i in range(n // M)]
      lcs = [lfsr.lc_textbook(b, M) for b in blocks]
      st, res = guarded(N.LinearComplexityImpl, blocks, M)
      if st == 'exc':
        out.append('LinearComplexityImpl(%d blocks of %d) raised %s' % (len(blocks), M, res))
        continue
      d = _named(res)
      pe = rn.linear_complexity(lcs, M)
      if not _close(d.get('distribution'), pe, 2e-5):  # printed pi are rounded to 6 digits
        out.append('LinearComplexityImpl(%#x as %d-bit blocks)[distribution] = %r; SP 800-22 '
                   'gives %.9g' % (v, M, d.get('distribution'), pe))
      q = 0
      for L in lcs:
        cnt = 1 if L == 0 else (2**(2 * L - 1) if L <= M // 2 else 4**(M - L))
        q += M - (cnt.bit_length() - 1)
      pe2 = float(sum(F(math.comb(q - 1, i), 2**(q - 1)) for i in range(0, min(len(lcs) - 1,
                                                                              q - 1) + 1)))
      if not _close(d.get('extreme values'), pe2):
        out.append('LinearComplexityImpl(%#x as %d-bit blocks)[extreme values] = %r; '
                   'definition gives %.12g' % (v, M, d.get('extreme values'), pe2))


def case_string(v, n):
  out = []
  check_string(v, n, out)
  return out


def strings(n, part, nparts):
  r = Result()
  tot = 1 << n
  lo, hi = part * tot // nparts, (part + 1) * tot // nparts
  for v in range(lo, hi):
    out = []
    check_string(v, n, out)
    r.ev('len%d' % n, v not in (0, tot - 1))
    for b in out[:3]:
      r.violation(b, {'fn': 'string', 'args': {'v': v, 'n': n}},
                  key={'fn': 'string', 'test': b.split('(')[0].split('[')[0], 'v': v, 'n': n})
    if len(r.violations) > 30:
      break
  r.sample({'length': n, 'range': [lo, hi - 1], 'tests': 'Frequency, Runs, BlockFrequencyImpl, '
            'Serial, ApproximateEntropy, RandomWalk(cusum), Spectral, NonOverlapping, '
            'OverlappingImpl, BinaryMatrixRank, UniversalImpl, LinearComplexityImpl'})
  return r


# ---- (b) longest runs --------------------------------------------------------

def case_longest(blocks):
  w = world.load()
  n = 8 * len(blocks)
  v = 0
  for i, b in enumerate(blocks):
    v |= b << (8 * i)
  e = rn.bits_of(v, n)
  st, got = guarded(w.nist.LongestRuns, v, n)
  exp = rn.longest_runs(e)
  if st == 'exc' or not _inrange(got) or not _close(got, exp):
    return ['LongestRuns(%d blocks %s..) = %r; SP 800-22 gives %r' %
            (len(blocks), [hex(b) for b in blocks[:4]], got, exp)]
  return []


def longest():
  r = Result()
  # the class map: every 8-bit block value, repeated 16 times
  for b in range(256):
    for x in case_longest([b] * 16):
      r.violation(x, {'fn': 'longest', 'args': {'blocks': [b] * 16}})
    r.ev('longest/classmap', True)
  reps = {0: [0x55, 0x00, 0x01], 1: [0x33, 0x66, 0x03], 2: [0x77, 0x0e, 0xe0], 3: [0xf0, 0xff, 0x1f]}
  for comp in itertools.product(range(17), repeat=3):
    if sum(comp) > 16:
      continue
    counts = list(comp) + [16 - sum(comp)]
    for variant in range(3):
      blocks = []
      for cls, c in enumerate(counts):
        blocks += [reps[cls][(variant + i) % 3] for i in range(c)]
      if variant == 1:
        blocks = blocks[::-1]
      elif variant == 2:
        blocks = blocks[1::2] + blocks[0::2]
      for x in case_longest(blocks):
        r.violation(x, {'fn': 'longest', 'args': {'blocks': blocks}})
      r.ev('longest/vector', True)
  r.sample({'longest_runs': 'all 256 block values (class map) + all 969 class-count vectors of '
            '16 blocks x 3 block orders'})
  return r


# ---- (c) thresholds -------------------------------------------------------------

def _alphabet(n, seed):
  full = (1 << n) - 1
  return [('zeros', 0), ('ones', full), ('alt', int('01' * (n // 2 + 1), 2) & full),
          ('per3', int('011' * (n // 3 + 1), 2) & full), ('onehot-lo', 1),
          ('onehot-hi', 1 << (n - 1)), ('drbg', nt.drbg_int('c12thr%d-%d' % (seed, n), n))]


# (test name, params, documented minimum as predicate on n -> True if sufficient)
def _threshold_tests(N):
  return [
      ('Frequency', N.Frequency, [], lambda n: True),
      ('BlockFrequency', N.BlockFrequency, [], lambda n: n >= 100),
      ('Runs', N.Runs, [], lambda n: True),
      ('LongestRuns', N.LongestRuns, [], lambda n: n >= 128),
      ('BinaryMatrixRank', N.BinaryMatrixRank, [], lambda n: n >= 38 * 32 * 32),
      ('BinaryMatrixRank[3,3,2]', N.BinaryMatrixRank, [3, 3, 2], lambda n: n >= 38 * 9),
      ('NonOverlappingTemplateMatching', N.NonOverlappingTemplateMatching, [],
       lambda n: n // 8 >= 4),
      ('OverlappingTemplateMatching', N.OverlappingTemplateMatching, [],
       lambda n: n >= 1032),
      ('Universal', N.Universal, [], lambda n: n >= 387840),
      ('LinearComplexity[10]', N.LinearComplexity, [10], lambda n: n >= 2000),
      ('LinearComplexity[9]', N.LinearComplexity, [9], lambda n: False),
      ('LinearComplexity[512]', N.LinearComplexity, [512], lambda n: n >= 102400),
      ('Serial', N.Serial, [], lambda n: True),
      ('ApproximateEntropy', N.ApproximateEntropy, [], lambda n: True),
      ('RandomWalk', N.RandomWalk, [], lambda n: True),
      ('Spectral', N.Spectral, [], lambda n: True),
  ]


def case_threshold(test, n, sname, seed):
  w = world.load()
  N = w.nist
  for nm, fn, params, suff in _threshold_tests(N):
    if nm != test:
      continue
    v = dict(_alphabet(n, seed))[sname]
    try:
      res = fn(v, n, *params)
    except N.InsufficientDataError:
      if suff(n):
        return ['%s(n=%d, %s) raised InsufficientDataError although n is not below the '
                'documented minimum' % (nm, n, sname)]
      return []
    except Exception as ex:  # pylint: disable=broad-except
      return ['%s(n=%d, %s) raised %s: %s' % (nm, n, sname, type(ex).__name__, str(ex)[:80])]
    if not suff(n):
      return ['%s(n=%d, %s) returned %r although n is below the documented minimum '
              '(InsufficientDataError expected)' % (nm, n, sname, str(res)[:60])]
    vals = [res] if isinstance(res, (int, float)) else [p for _, p in res]
    if nm in ('BlockFrequency', 'LongestRuns', 'Frequency') and (
        n <= 300000 or (n <= 1100000 and sname in ('drbg', 'alt'))):
      e = rn.bits_of(v, n)
      if nm == 'BlockFrequency':
        m = 16
        while n // m >= 100:
          m *= 2
        exp = rn.block_frequency(e, max(20, m))
      elif nm == 'LongestRuns':
        exp = rn.longest_runs(e)
      else:
        exp = rn.frequency(e)
      if not _close(res, exp, 1e-8):
        return ['%s(n=%d, %s) = %r; SP 800-22 with the documented parameter choice gives %.12g'
                % (nm, n, sname, res, exp)]
    if sname in ('drbg', 'alt', 'per3'):
      dv = _default_values(nm, rn.bits_of(v, n), n, res)
      if dv:
        return ['%s(n=%d, %s) %s' % (nm, n, sname, dv)]
    bad = [p for p in vals if not _inrange(p)]
    if bad and nm == 'RandomWalk' and n < 100 and all(1 < float(p) < 1.2 for p in bad):
      return []  # asymptotic cusum formula below NIST's recommended n >= 100
    if bad:
      if nm == 'Serial' and all(math.isnan(float(p)) for p in bad):
        return []  # negative generalized serial statistic: undefined by the formula
      return ['%s(n=%d, %s) returned %r which is not a p-value in [0,1]' %
              (nm, n, sname, bad[0])]
    return []
  raise ValueError(test)


UNIVERSAL_MIN_N = {6: 387840, 7: 904960, 8: 2068480, 9: 4654080, 10: 10342400}


def _default_values(nm, e, n, res):
  """Value / shape comparison for the tests whose *default* parameter is chosen from n (the
  parameter ladders): which parameter must have been used follows from the documented rule,
  the value from the SP 800-22 transcription. Returns a message or None."""
  if nm == 'Serial' and n >= 8:
    m_max = max(2, min(22, n.bit_length() - 4))
    d = _named(res)
    want = ['m=%d p-value%d' % (m, j) for m in range(2, m_max + 1) for j in (1, 2)]
    if sorted(d) != sorted(want):
      return 'returns results for %d values of m, 2.11.7 (m < log2(n) - 2) gives m = 2..%d' % (
          len(d) // 2, m_max)
    for m in (sorted({2, m_max}) if n <= 70000 else []):
      p1, p2, d1, d2 = rn.serial(e, m)
      for key, pe, st in (('m=%d p-value1' % m, p1, d1), ('m=%d p-value2' % m, p2, d2)):
        if st > 0 and pe is not None and not _close(d[key], pe, 1e-7):
          return '[%s] = %r; SP 800-22 gives %.12g' % (key, d[key], pe)
  elif nm == 'ApproximateEntropy' and n >= 8:
    bl = n.bit_length()
    m_max = (max(2, bl - 7) if n < 2**16 else bl - 8 if n < 2**20 else bl - 9 if n < 2**24
             else min(22, bl - 10))
    d = _named(res)
    if sorted(d) != sorted('m=%d' % m for m in range(2, m_max + 1)):
      return 'returns %d results, the documented bound gives m = 2..%d' % (len(d), m_max)
    for m in (sorted({2, m_max}) if n <= 70000 else []):
      pe, _ = rn.apen(e, m)
      if pe is not None and not _close(d['m=%d' % m], pe, 1e-7):
        return '[m=%d] = %r; SP 800-22 gives %.12g' % (m, d['m=%d' % m], pe)
  elif nm == 'NonOverlappingTemplateMatching' and n >= 32:
    bs = n // 8
    m = 10
    for bound, mm_ in ((64, 2), (256, 3), (1024, 4), (2048, 5), (4096, 6), (8192, 7),
                       (16384, 8), (32768, 9)):
      if bs < bound:
        m = mm_
        break
    d = _named(res)
    temps = [t for t in range(2**m) if rn.is_nonoverlapping(t, m)]
    if len(d) != len(temps):
      return 'returns %d results, %d templates of length %d expected' % (len(d), len(temps), m)
    for t in ((temps[0], temps[-1]) if n <= 70000 else ()):
      key = "template '%s'" % format(t, '0%db' % m)
      # the library forms every full block of n // 8 bits (9 blocks for n = 63 etc.) and uses
      # that count in the formula; which count is "right" below 64 bits is not asserted
      nb = n // bs
      pe = rn.nonoverlapping(e[:bs * nb], nb, m, t)
      if not _close(d.get(key), pe, 1e-8):
        return '[%s] = %r; SP 800-22 gives %.12g' % (key, d.get(key), pe)
  elif nm == 'Universal' and n >= 387840:
    L = max(l for l, b in UNIVERSAL_MIN_N.items() if b <= n)
    pe = rn.universal(e[:(n // L) * L], L, 10 * 2**L)
    if not _close(res, pe, 1e-7):
      return '= %r; SP 800-22 with L = %d, Q = %d gives %.12g' % (res, L, 10 * 2**L, pe)
  return None


def thresholds(tests, ns, seed):
  r = Result()
  for test in tests:
    for n in ns:
      for sname, _ in _alphabet(n, seed):
        if test in ('Serial', 'ApproximateEntropy') and n < 3:
          continue
        if test == 'Spectral' and n > 300000:
          continue
        bad = case_threshold(test, n, sname, seed)
        r.ev('%s/%s' % (test, 'n=%d' % n if n < 0 else 'len'), sname not in ('zeros', 'ones'))
        for b in bad:
          r.violation(b, {'fn': 'threshold', 'args': {'test': test, 'n': n, 'sname': sname,
                                                      'seed': seed}})
  r.sample({'tests': tests, 'lengths': ns[:12], 'strings': ['zeros', 'ones', 'alt', 'per3',
                                                             'onehot-lo', 'onehot-hi', 'drbg']})
  return r


def _threshold_lengths():
  ts = {100, 128, 6272, 750000, 38 * 9, 38 * 1024, 387840, 904960, 2000, 102400, 32, 1032,
        16 * 100, 32 * 100, 64 * 100, 128 * 100, 20 * 100, 512, 2048, 8192, 16384, 32768,
        65536, 131072, 262144, 2**20}
  ns = set()
  for t in ts:
    for d in (-2, -1, 0, 1, 2):
      if t + d >= 1:
        ns.add(t + d)
  ns |= {1, 2, 3, 4, 5, 7, 8, 9, 15, 16, 17, 31, 33, 63, 64, 65}
  return sorted(ns)


# ---- (d) invariances on longer strings ----------------------------------------------

def case_invariance(n, seed, idx):
  w = world.load()
  N = w.nist
  v = nt.drbg_int('c12inv%d-%d-%d' % (seed, n, idx), n)
  if idx % 4 == 3:
    v &= nt.drbg_int('c12inv-mask%d-%d-%d' % (seed, n, idx), n)  # biased
  full = (1 << n) - 1
  comp = v ^ full
  rev = int(format(v, '0%db' % n)[::-1], 2)
  k = 1 + idx % (n - 1)
  rot = ((v >> k) | (v << (n - k))) & full
  out = []

  def same(name, a, b):
    da = {'p': a} if isinstance(a, (int, float)) else _named(a)
    db = {'p': b} if isinstance(b, (int, float)) else _named(b)
    for key in da:
      if key in db and not _close(da[key], db[key], 1e-7) and not (
          math.isnan(da[key]) and math.isnan(db[key])):
        out.append('%s not invariant (%s): %.12g vs %.12g  (n=%d, idx=%d)' %
                   (name, key, da[key], db[key], n, idx))
        return

  same('Frequency/complement', N.Frequency(v, n), N.Frequency(comp, n))
  same('Frequency/reverse', N.Frequency(v, n), N.Frequency(rev, n))
  same('Frequency/rotate', N.Frequency(v, n), N.Frequency(rot, n))
  same('Runs/complement', N.Runs(v, n), N.Runs(comp, n))
  same('Runs/reverse', N.Runs(v, n), N.Runs(rev, n))
  same('Serial/complement', N.Serial(v, n, 5), N.Serial(comp, n, 5))
  same('Serial/rotate', N.Serial(v, n, 5), N.Serial(rot, n, 5))
  same('ApproximateEntropy/complement', N.ApproximateEntropy(v, n, 4),
       N.ApproximateEntropy(comp, n, 4))
  same('ApproximateEntropy/rotate', N.ApproximateEntropy(v, n, 4),
       N.ApproximateEntropy(rot, n, 4))
  a, b, c = (_named(N.RandomWalk(x, n)) for x in (v, comp, rev))
  for key in ('cumulative sums forward', 'cumulative sums reverse'):
    if not _close(a[key], b[key], 1e-9):
      out.append('RandomWalk[%s] not invariant under complement (n=%d, idx=%d)' % (key, n, idx))
  if not _close(a['cumulative sums forward'], c['cumulative sums reverse'], 1e-9) or \
      not _close(a['cumulative sums reverse'], c['cumulative sums forward'], 1e-9):
    out.append('RandomWalk cusum forward/reverse do not swap under reversal (n=%d, idx=%d): '
               '%r vs %r' % (n, idx, a, c))
  return out


def invariances(ns, seed, count):
  r = Result()
  for n in ns:
    for idx in range(count):
      bad = case_invariance(n, seed, idx)
      r.ev('invariance', True)
      for b in bad[:2]:
        r.violation(b, {'fn': 'invariance', 'args': {'n': n, 'seed': seed, 'idx': idx}})
  r.sample({'invariances': 'complement / reverse / rotate on %d DRBG strings per length' % count,
            'lengths': ns})
  return r


# ---- (e) tables -------------------------------------------------------------------

def tables(part):
  w = world.load()
  N = w.nist
  r = Result()

  def viol(text, args):
    r.violation(text, {'fn': 'table', 'args': args})

  if part == 0:
    # longest-run class probabilities for M = 8 (enumeration) and 128 (exact DP)
    for (minn, M, lo, hi, pi) in rn.LONGEST_PARAMS[:2]:
      exact = _longest_distribution(M, lo, hi)
      r.ev('table/longest M=%d' % M)
      for i, (a, b) in enumerate(zip(pi, exact)):
        if abs(a - float(b)) > 1.5e-4:
          viol('LongestRuns table for M=%d class %d: %.4f vs exact %.6f' % (M, i, a, float(b)),
               {'what': 'longest', 'M': M, 'i': i})
    # the library's own embedded table must equal the NIST one
    src = open(N.__file__).read()
    for _, M, lo, hi, pi in rn.LONGEST_PARAMS:
      for x in pi:
        r.ev('table/longest-embedded')
        if ('%.4f' % x) not in src and ('%g' % x) not in src:
          viol('LongestRuns: probability %.4f of SP 800-22 3.4 not found in the module' % x,
               {'what': 'longest-src', 'x': x})
  elif part == 1:
    # rank distribution: exact product formula; enumeration of all matrices <= 4x4
    for rr in range(1, 9):
      for cc in range(1, 9):
        for k in range(1, min(rr, cc) + 1):
          st, got = guarded(N.RankDistribution, rr, cc, k, False)
          exp = [float(x) for x in rn.rank_distribution(rr, cc, k)]
          r.ev('table/rank')
          if st == 'exc' or len(got) != len(exp) or any(
              abs(float(a) - b) > 1e-12 for a, b in zip(got, exp)):
            viol('RankDistribution(%d,%d,%d) = %r; exact %r' % (rr, cc, k, got, exp),
                 {'what': 'rank', 'r': rr, 'c': cc, 'k': k})
    for rr in range(1, 5):
      for cc in range(1, 5):
        cnt = [0] * (min(rr, cc) + 1)
        for mat in itertools.product(range(1 << cc), repeat=rr):
          cnt[rn.rank_gf2(mat)] += 1
        for rk, c_ in enumerate(cnt):
          r.ev('table/rank-enum')
          if F(c_, 2**(rr * cc)) != rn.rank_probability(rr, cc, rk):
            raise AssertionError('reference rank formula disagrees with enumeration')
    got = N.RankDistribution(32, 32, 3)
    exp = [float(x) for x in rn.rank_distribution(32, 32, 3)]
    r.ev('table/rank-32')
    if any(abs(a - b) > 1e-8 for a, b in zip(got, exp)):
      viol('RankDistribution(32,32,3) = %r; exact %r' % (got, exp), {'what': 'rank32'})
    for k in (1, 2, 4, 5):
      got = N.RankDistribution(40, 40, k)
      exp = [float(x) for x in rn.rank_distribution(40, 40, k)]
      r.ev('table/rank-40')
      if any(abs(a - b) > 2e-8 for a, b in zip(got, exp)):
        viol('RankDistribution(40,40,%d) = %r; exact %r' % (k, got, exp), {'what': 'rank40',
                                                                          'k': k})
  elif part == 2:
    # overlapping template distribution vs enumeration of all strings
    for m in (2, 3, 4):
      for n in range(m + 4, 17):
        cnt = [0] * 6
        for v in range(1 << n):
          x = v
          for _ in range(m - 1):
            x &= x >> 1
          cnt[min(5, bin(x).count('1'))] += 1
        st, got = guarded(N.OverlappingTemplateMatchingDistribution, n, m, 5)
        r.ev('table/overlapping')
        if st == 'exc' or any(abs(float(a) - c_ / 2**n) > 1e-10 for a, c_ in zip(got, cnt)):
          viol('OverlappingTemplateMatchingDistribution(%d,%d,5) = %r; enumeration gives %r' %
               (n, m, got, [c_ / 2**n for c_ in cnt]), {'what': 'overlap', 'n': n, 'm': m})
    for n, m in ((1032, 9), (1000, 9), (200, 5), (64, 4)):
      got = N.OverlappingTemplateMatchingDistribution(n, m, 5)
      exp = [float(x) for x in rn.overlapping_distribution(n, m, 5)]
      r.ev('table/overlapping-dp')
      if any(abs(float(a) - b) > 1e-9 for a, b in zip(got, exp)):
        viol('OverlappingTemplateMatchingDistribution(%d,%d,5) = %r; exact %r' % (n, m, got, exp),
             {'what': 'overlap-dp', 'n': n, 'm': m})
  elif part == 3:
    # universal: mean / variance vs Maurer's series (printed values are truncated)
    for L in range(1, 13):
      mean, var = rn.maurer_mean_var(L)
      st, got = guarded(N.UniversalDistribution, L, 1000)
      tm, tv = rn.UNIVERSAL_TABLE[L]
      r.ev('table/universal')
      if abs(float(mean) - tm) > 1.1e-7 * (10 if L >= 11 else 1) or abs(float(var) - tv) > 1.1e-3:
        raise AssertionError('reference universal table disagrees with the series at L=%d: '
                             '%s %s' % (L, mean, var))
      K = 1000
      c = 0.7 - 0.8 / L + (4 + 32 / L) * K**(-3 / L) / 15
      if st == 'exc' or abs(got[0] - float(mean)) > 1.1e-7 * (10 if L >= 11 else 1) or \
          (c > 0 and abs(got[1] - c * math.sqrt(float(var) / K)) >
           2e-4 * c * math.sqrt(float(var) / K)):
        viol('UniversalDistribution(%d, 1000) = %r; Maurer series gives mean %.7f, variance '
             '%.4f' % (L, got, float(mean), float(var)), {'what': 'universal', 'L': L})
    # excursion distribution sums to one and matches 3.14
    for x in range(-9, 10):
      if x == 0:
        continue
      for maxk in (3, 5, 7):
        got = N.RandomExcursionsDistribution(x, maxk)
        t = F(1, 2 * abs(x))
        exp = [1 - t] + [t * t * (1 - t)**(k - 1) for k in range(1, maxk)] + \
            [t * (1 - t)**(maxk - 1)]
        r.ev('table/excursions')
        if len(got) != len(exp) or any(abs(a - float(b)) > 1e-12 for a, b in zip(got, exp)) \
            or abs(sum(got) - 1) > 1e-12:
          viol('RandomExcursionsDistribution(%d,%d) = %r; 3.14 gives %r' %
               (x, maxk, got, [float(b) for b in exp]), {'what': 'excursion', 'x': x})
    # asymptotic rank survival function of the extended suite
    E = w.ext_nist
    if hasattr(E, 'ASYMPTOTIC_RANK_SF'):
      tab = list(E.ASYMPTOTIC_RANK_SF)
      import mpmath
      mpmath.mp.dps = 40
      mpmath.mp.dps = 60
      prob = []
      for d in range(len(tab) + 8):
        # P(rank = n - d) for large square matrices
        p = mpmath.mpf(2)**(-d * d)
        p *= mpmath.nprod(lambda i: 1 - mpmath.mpf(2)**(-i), [d + 1, mpmath.inf])
        if d:
          p /= mpmath.nprod(lambda i: 1 - mpmath.mpf(2)**(-i), [1, d])
        prob.append(p)
      if abs(sum(prob) - 1) > mpmath.mpf(10)**-50:
        raise AssertionError('reference rank distribution does not sum to one')
      for d, tv in enumerate(tab):
        sf = mpmath.fsum(prob[d:])  # tail sum: no cancellation
        r.ev('table/asymptotic-rank')
        if abs(float(sf) - tv) > 1.01e-5 * float(sf):  # printed with 6 significant digits
          viol('ASYMPTOTIC_RANK_SF[%d] = %r; infinite product gives %.12g' % (d, tv, float(sf)),
               {'what': 'asf', 'd': d})
  r.sample({'tables_part': ['longest-run pi', 'rank distribution', 'overlapping distribution',
                            'universal / excursions / asymptotic rank'][part]})
  return r


def _longest_distribution(M, lo, hi):
  """Exact class probabilities of the longest run of ones in M random bits."""
  def at_most(t):  # number of M-bit strings with longest run <= t
    a = [0] * (M + 1)
    for i in range(M + 1):
      if i <= t:
        a[i] = 2**i
      else:
        a[i] = sum(a[i - j - 1] for j in range(t + 1))
    return a[M]
  probs = []
  prev = 0
  for t in range(lo, hi):
    c = at_most(t)
    probs.append(F(c - prev, 2**M))
    prev = c
  probs.append(F(2**M - prev, 2**M))
  return probs


def case_table(**kw):
  r = tables({'longest': 0, 'longest-src': 0, 'rank': 1, 'rank32': 1, 'rank40': 1,
              'overlap': 2, 'overlap-dp': 2, 'universal': 3, 'excursion': 3, 'asf': 3}[kw['what']])
  return [v['what'] for v in r.violations if v['case']['args'] == kw]


# ---- (f) random excursions on structured walks ------------------------------------------

_CYCLES = ['10', '01', '1100', '0011', '110100', '001011', '111000', '000111', '11011000',
           '11110000', '00001111', '1101010100', '0010101011', '1111100000']


def _walk_string(counts, order):
  """Concatenation of cycles; returns (v, n)."""
  seq = []
  for ci, c in enumerate(counts):
    seq += [_CYCLES[ci]] * c
  if order == 1:
    seq = seq[::-1]
  elif order == 2:
    seq = seq[1::2] + seq[0::2]
  s = ''.join(seq)
  v = 0
  for i, ch in enumerate(s):
    if ch == '1':
      v |= 1 << i
  return v, len(s)


def case_excursions(counts, order, tail):
  w = world.load()
  v, n = _walk_string(counts, order)
  if tail:
    for i in range(tail):
      v |= 1 << (n + i)
    n += tail
  e = rn.bits_of(v, n)
  st, res = guarded(w.nist.RandomWalk, v, n)
  if st == 'exc':
    return ['RandomWalk raised %s on a walk of %d cycles' % (res, sum(counts))]
  d = _named(res)
  J = len(rn.cycles(e))
  out = []
  names = [k for k in d if k.startswith('random excursions')]
  if J < 500:
    if names:
      out.append('RandomWalk returned excursion p-values with only %d cycles' % J)
    return out
  for x in (-4, -3, -2, -1, 1, 2, 3, 4):
    pe, _ = rn.excursions(e, x)
    nm = 'random excursions %d' % x
    if nm not in d or not _inrange(d[nm]) or not _close(d[nm], pe):
      out.append('RandomWalk[%s] = %r; SP 800-22 2.14 gives %.12g (J=%d)' %
                 (nm, d.get(nm), pe, J))
  for x in range(-9, 10):
    if x == 0:
      continue
    pe, _ = rn.excursions_variant(e, x)
    nm = 'random excursions variant %d' % x
    if nm not in d or not _inrange(d[nm]) or not _close(d[nm], pe):
      out.append('RandomWalk[%s] = %r; SP 800-22 2.15 gives %.12g (J=%d)' %
                 (nm, d.get(nm), pe, J))
  return out


def excursions(part, nparts, stride=1):
  r = Result()
  idx = 0
  # count vectors: J = 498..502 total cycles spread over 3 cycle shapes at a time
  for si, shapes in enumerate(itertools.combinations(range(len(_CYCLES)), 3)):
    if si % stride:
      continue
    for total in (498, 499, 500, 640):
      for a in (0, 1, total // 3):
        for b in (0, 7, (total - a) // 2):
          idx += 1
          if idx % nparts != part:
            continue
          counts = [0] * len(_CYCLES)
          counts[shapes[0]] = a
          counts[shapes[1]] = b
          counts[shapes[2]] = total - a - b
          for order, tail in ((0, 0), (1, 0), (2, 3), (0, 12)):
            bad = case_excursions(counts, order, tail)
            r.ev('excursions/J%s500' % ('>=' if total + (1 if True else 0) >= 500 else '<'), True)
            for x in bad[:2]:
              r.violation(x, {'fn': 'excursions', 'args': {'counts': counts, 'order': order,
                                                           'tail': tail}})
  r.sample({'walks': 'concatenations of 3 of %d cycle shapes, 498..640 cycles, 4 layouts' %
            len(_CYCLES)})
  return r


# ---- (g) longer strings against the reference -------------------------------------------

def case_long(n, seed, sname):
  w = world.load()
  N = w.nist
  v = dict(_alphabet(n, seed) + [('drbg2', nt.drbg_int('c12long%d-%d' % (seed, n), n)),
                                 ('biased', nt.drbg_int('c12b1%d-%d' % (seed, n), n) &
                                  nt.drbg_int('c12b2%d-%d' % (seed, n), n))])[sname]
  e = rn.bits_of(v, n)
  out = []

  def cmp(name, st_got, exp, tol=1e-8):
    st, got = st_got
    if exp == 'insufficient':
      return
    if st == 'exc':
      out.append('%s(n=%d,%s) raised %s; SP 800-22 gives %r' % (name, n, sname, got, exp))
    elif not _inrange(got) or not _close(got, exp, tol):
      out.append('%s(n=%d,%s) = %r; SP 800-22 gives %.12g' % (name, n, sname, got, exp))

  cmp('Frequency', guarded(N.Frequency, v, n), rn.frequency(e))
  if n >= 100:
    m = 16
    while n // m >= 100:
      m *= 2
    m = max(20, m)
    cmp('BlockFrequency', guarded(N.BlockFrequency, v, n), rn.block_frequency(e, m))
  p, pre = rn.runs(e)
  if p is not None and pre:
    cmp('Runs', guarded(N.Runs, v, n), p)
  if n >= 128:
    cmp('LongestRuns', guarded(N.LongestRuns, v, n), rn.longest_runs(e))
  if n <= 1024 and n % 2 == 0:
    pe, margin = rn.spectral(e)
    if margin > 1e-6:
      cmp('Spectral', guarded(N.Spectral, v, n), pe, 1e-7)
  if n >= 38 * 9:
    cmp('BinaryMatrixRank[3,3,2]', guarded(N.BinaryMatrixRank, v, n, 3, 3, 2),
        rn.matrix_rank_test(e, 3, 3, 2))
  if n >= 38 * 64:
    cmp('BinaryMatrixRank[8,8,3]', guarded(N.BinaryMatrixRank, v, n, 8, 8, 3),
        rn.matrix_rank_test(e, 8, 8, 3))
  zf, zb = rn.cusum_z(e)
  st, res = guarded(N.RandomWalk, v, n)
  if st == 'exc':
    out.append('RandomWalk(n=%d,%s) raised %s' % (n, sname, res))
  else:
    d = _named(res)
    for nm, z in (('cumulative sums forward', zf), ('cumulative sums reverse', zb)):
      exp = rn.cusum_p_closed(n, z)
      if not _close(d.get(nm), exp, 2e-6) or not _inrange(d.get(nm)):
        out.append('RandomWalk(n=%d,%s)[%s] = %r; 2.13.4 gives %.9g (z=%d)' %
                   (n, sname, nm, d.get(nm), exp, z))
  mm = 4
  st, res = guarded(N.Serial, v, n, mm)
  if st == 'ok':
    d = _named(res)
    for m in range(2, mm + 1):
      p1, p2, _, _ = rn.serial(e, m)
      for nm, pe in (('m=%d p-value1' % m, p1), ('m=%d p-value2' % m, p2)):
        if pe is not None and not _close(d.get(nm), pe, 1e-8):
          out.append('Serial(n=%d,%s)[%s] = %r; SP 800-22 gives %.12g' % (n, sname, nm,
                                                                          d.get(nm), pe))
  else:
    out.append('Serial(n=%d,%s) raised %s' % (n, sname, res))
  st, res = guarded(N.ApproximateEntropy, v, n, 3)
  if st == 'ok':
    d = _named(res)
    for m in (2, 3):
      pe, _ = rn.apen(e, m)
      if pe is not None and not _close(d.get('m=%d' % m), pe, 1e-7):
        out.append('ApproximateEntropy(n=%d,%s)[m=%d] = %r; SP 800-22 gives %.12g' %
                   (n, sname, m, d.get('m=%d' % m), pe))
  else:
    out.append('ApproximateEntropy(n=%d,%s) raised %s' % (n, sname, res))
  # non-overlapping default ladder
  bs = n // 8
  if bs >= 4:
    ladder = [(64, 2), (256, 3), (1024, 4), (2048, 5), (4096, 6), (8192, 7), (16384, 8),
              (32768, 9)]
    m = 10
    for bound, mm_ in ladder:
      if bs < bound:
        m = mm_
        break
    st, res = guarded(N.NonOverlappingTemplateMatching, v, n)
    if st == 'exc':
      out.append('NonOverlappingTemplateMatching(n=%d,%s) raised %s' % (n, sname, res))
    else:
      d = _named(res)
      temps = [t for t in range(2**m) if rn.is_nonoverlapping(t, m)]
      if len(d) != len(temps):
        out.append('NonOverlappingTemplateMatching(n=%d): %d templates of length %d expected, '
                   'got %d results' % (n, len(temps), m, len(d)))
      for t in temps[:3] + temps[-2:]:
        nm = "template '%s'" % format(t, '0%db' % m)
        pe = rn.nonoverlapping(e[:bs * 8], 8, m, t)
        if not _close(d.get(nm), pe, 1e-8):
          out.append('NonOverlappingTemplateMatching(n=%d,%s)[%s] = %r; SP 800-22 gives %.12g'
                     % (n, sname, nm, d.get(nm), pe))
  return out


def longs(ns, seed):
  r = Result()
  for n in ns:
    for sname in ('alt', 'per3', 'drbg', 'drbg2', 'biased', 'onehot-lo'):
      bad = case_long(n, seed, sname)
      r.ev('long', True)
      for b in bad[:3]:
        r.violation(b, {'fn': 'long', 'args': {'n': n, 'seed': seed, 'sname': sname}})
  r.sample({'long_strings': ns, 'strings': 6})
  return r


# ---- (h) cusum p-value map ----------------------------------------------------------------

def case_cusum_map(n, z):
  w = world.load()
  st, got = guarded(w.nist.CumulativeSumsPValue, n, z)
  exp = rn.cusum_p_closed(n, z)
  if st == 'exc' or not _close(got, exp, 2e-6) or not _inrange(got):
    return ['CumulativeSumsPValue(%d, %d) = %r; 2.13.4(4) gives %.9g' % (n, z, got, exp)]
  return []


def cusum_map():
  r = Result()
  for n in (100, 128, 1000, 10**4, 10**6):
    zs = range(1, n + 1) if n <= 1000 else sorted(set(
        list(range(1, 400)) + [int(n**0.5 * f) for f in (0.3, 0.5, 1, 1.5, 2, 3, 4, 6)] +
        [n // 2, n - 1, n]))
    for z in zs:
      for b in case_cusum_map(n, z):
        r.violation(b, {'fn': 'cusum_map', 'args': {'n': n, 'z': z}})
      r.ev('cusum-map', True)
  r.sample({'cusum_map': 'n in {100,128,1000,1e4,1e6} x all/strided z'})
  return r


# ---- (i) extended suite ---------------------------------------------------------------------

def case_extended(kind, size, deficiency, step, seed):
  """LargeBinaryMatrixRank on a size x size matrix of known rank deficiency;
  LinearComplexityScatter against reference linear complexities."""
  import math as _m
  from pmc.refs import lfsr
  w = world.load()
  E = w.ext_nist
  out = []
  if kind == 'rank':
    rows = [nt.drbg_int('c12x-%d-%d-%d' % (seed, size, i), size) | (1 << i) for i in range(size)]
    # make `deficiency` rows dependent on the others
    base_rank = rn.rank_gf2(rows)
    for j in range(deficiency):
      rows[size - 1 - j] = rows[j] ^ rows[j + 1] if j + 1 < size - deficiency else rows[0]
    rk = rn.rank_gf2(rows)
    k = size - rk
    bits = 0
    for i, r_ in enumerate(rows):
      bits |= r_ << (i * size)
    n = size * size + (seed % 7)
    st, res = guarded(E.LargeBinaryMatrixRank, bits, n)
    if st == 'exc':
      return ['LargeBinaryMatrixRank raised %s' % res]
    d = _named(res)
    exp = E.ASYMPTOTIC_RANK_SF[k] if k < len(E.ASYMPTOTIC_RANK_SF) else 0
    nm = '%d * %d' % (size, size)
    if nm not in d or not _close(d[nm], exp, 1e-12):
      out.append('LargeBinaryMatrixRank: %dx%d matrix of rank %d -> %r; P(rank <= n-%d) = %r' %
                 (size, size, rk, d.get(nm), k, exp))
    smaller = [x for x in d if x != nm]
    if size == 64 and smaller:
      out.append('LargeBinaryMatrixRank produced p-values %s for %d bits' % (smaller, n))
  else:
    n = size
    v = nt.drbg_int('c12s-%d-%d-%d' % (seed, size, step), n)
    if deficiency:
      # plant a short LFSR in one interleaved stream
      e = rn.bits_of(v, n)
      stream = lfsr.lfsr_sequence(0b1001, 1, 4, (n + step - 1) // step)
      for j in range((n + step - 1 - 0) // step):
        if j * step < n:
          e[j * step] = (stream >> j) & 1
      v = sum(b << i for i, b in enumerate(e))
    st, got = guarded(E.LinearComplexityScatter, v, n, step)
    if st == 'exc':
      return ['LinearComplexityScatter raised %s' % got]
    q = 0
    for i in range(step):
      sz = (n + step - 1 - i) // step
      seq = sum(((v >> (i + j * step)) & 1) << j for j in range(sz))
      L = lfsr.lc_textbook(seq, sz)
      cnt = 1 if L == 0 else (2**(2 * L - 1) if L <= sz // 2 else 4**(sz - L))
      q += sz - (cnt.bit_length() - 1)
    exp = float(sum(F(_m.comb(q - 1, j), 2**(q - 1)) for j in range(0, min(step - 1, q - 1) + 1)))
    if not _close(got, exp, 1e-9):
      out.append('LinearComplexityScatter(n=%d, step=%d) = %r; definition gives %.12g' %
                 (n, step, got, exp))
  return out


def extended(seed):
  r = Result()
  for size in (64, 128):
    for deficiency in (0, 1, 2, 3, 5, 12, 40):
      for b in case_extended('rank', size, deficiency, 0, seed):
        r.violation(b, {'fn': 'extended', 'args': {'kind': 'rank', 'size': size,
                                                   'deficiency': deficiency, 'step': 0,
                                                   'seed': seed}})
      r.ev('extended/rank', True)
  for n in (64, 100, 257, 1000):
    for step in (1, 2, 3, 8, 32):
      for planted in (0, 1):
        for b in case_extended('scatter', n, planted, step, seed):
          r.violation(b, {'fn': 'extended', 'args': {'kind': 'scatter', 'size': n,
                                                     'deficiency': planted, 'step': step,
                                                     'seed': seed}})
        r.ev('extended/scatter', True)
  r.sample({'extended_suite': 'LargeBinaryMatrixRank on 64/128-row matrices of known rank '
            'deficiency; LinearComplexityScatter on 4 lengths x 5 step sizes x planted LFSR'})
  return r


CASES = {'extended': case_extended, 'string': case_string, 'longest': case_longest, 'threshold': case_threshold,
         'invariance': case_invariance, 'table': case_table, 'excursions': case_excursions,
         'long': case_long, 'cusum_map': case_cusum_map}


def plan(tier, seed):
  thorough = tier == 'thorough'
  Lmax = 16 if thorough else 12
  T = []
  for n in range(1, Lmax + 1):
    nparts = max(1, min(128, (1 << n) // 256))
    for part in range(nparts):
      T.append(Task('all-strings', 'strings', {'n': n, 'part': part, 'nparts': nparts},
                    bound='every bit string of every length 1..%d x 12 tests' % Lmax,
                    weight=(1 << n) / nparts * n))
  T.append(Task('longest-runs-vectors', 'longest', {},
                bound='all block values + all 969 class-count vectors x 3 orders', weight=5e5))
  ns = _threshold_lengths()
  N = world.load().nist
  names = [t[0] for t in _threshold_tests(N)]
  small = [n for n in ns if n <= 70000]
  big = [n for n in ns if n > 70000]
  for nm in names:
    T.append(Task('thresholds', 'thresholds', {'tests': [nm], 'ns': small, 'seed': seed},
                  bound='every n within +-2 of each ladder / minimum threshold x 7 strings',
                  weight=sum(small) * 10))
    heavy = {'Spectral', 'LinearComplexity[512]', 'LinearComplexity[10]', 'Serial',
             'ApproximateEntropy', 'NonOverlappingTemplateMatching'}
    bb = big if thorough else [n for n in big if n < 400000]
    if nm == 'Universal' and not thorough:
      bb += [n for n in big if abs(n - 904960) <= 2]  # second step of the 2.9.7 ladder
    if nm == 'LongestRuns' and not thorough:
      bb += [n for n in big if 749000 < n < 751000]  # third parameter set of 2.4.2
    if nm in heavy and not thorough:
      bb = [n for n in bb if n < 140000]
    for n in bb:
      T.append(Task('thresholds', 'thresholds', {'tests': [nm], 'ns': [n], 'seed': seed},
                    bound='', weight=n * 70))
  T.append(Task('invariances', 'invariances',
                {'ns': [17, 64, 100, 257, 1000, 4099] + ([65536] if thorough else []),
                 'seed': seed, 'count': 40 if thorough else 12}, complete=False,
                bound='complement/reverse/rotate', weight=3e6))
  for part in range(4):
    T.append(Task('tables', 'tables', {'part': part},
                  bound='embedded tables vs exact derivations', weight=3e6))
  nparts = 16
  for part in range(nparts):
    T.append(Task('excursion-walks', 'excursions', {'part': part, 'nparts': nparts,
                                                    'stride': 1 if thorough else 12},
                  complete=False, bound='structured walks with 498..640 cycles', weight=4e6))
  for n in ([128, 256, 1000, 1024, 4096] + ([16384, 65536] if thorough else [])):
    T.append(Task('long-strings', 'longs', {'ns': [n], 'seed': seed}, complete=False,
                  bound='default-parameter tests vs reference on longer strings', weight=n * 3e3))
  T.append(Task('extended-suite', 'extended', {'seed': seed}, complete=False,
                bound='structured inputs for the two extended tests', weight=5e6))
  T.append(Task('cusum-pvalue-map', 'cusum_map', {},
                bound='closed form 2.13.4(4) on n>=100', weight=2e6))
  return T
