"""C19 -- number-theory, lattice and linear-algebra helpers return only true
solutions."""
import fractions
import itertools
import math

from pmc import world
from pmc.core import Result, Task, guarded
from pmc.refs import nt
from pmc.refs import stats as rs

F = fractions.Fraction

ID = 'C19'
LEVEL = 'exploration'
LEVEL_TEXT = ('Bounded-exhaustive exploration of the helper functions: all n < 2^12 x all '
              'k <= 12 for the 2-adic routines, all small operands for continued fractions '
              '/ rounded division / sieve, all small integer matrices (complete for shapes '
              'up to 4x3 / 5x2 and for the zero/dependent-row sub-space of 5x4) for the '
              'linear solver, all residue lists up to length 4 (7) for the pseudo-average, '
              'all n <= 100 on a 1/8 grid for the uniform-sum CDF, planted-root grids for '
              'the small-root finders; each compared with a brute-force or exact-rational '
              'reference.')
TECHNIQUE = ('bounded-exhaustive enumeration of small operand spaces on the real code vs. '
             'brute-force / exact rational references (stateless model checking, M1)')
RULE = ('per helper: every operand tuple in the stated range; distinct by construction; '
        'non-trivial = a solution exists / the matrix is singular or has a zero pivot / '
        'the list is not constant (outcome classes separate them)')
ASSUMPTIONS = ['proto/pybind shims of pmc.world', 'fractions / mpmath (60 digits) references',
               'fpylll as installed (LLL) for the small-root finders',
               'tolerances: UniformSumCdf 1e-9 abs for n<=36 (measured 4e-12), 5e-3 abs beyond (measured 7.5e-4; normal '
               'approximation is the documented behaviour); special functions 1e-9 rel '
               '+ 1e-12 abs']


# ---- 2-adic ---------------------------------------------------------------

def case_2adic(n, k):
  w = world.load()
  u = w.ntheory_util
  out = []
  mod = 1 << k
  st, a = guarded(u.Inverse2exp, n, k)
  exists = n % 2 == 1
  if st == 'exc':
    out.append('Inverse2exp(%d,%d) raised %s' % (n, k, a))
  elif a is None:
    if exists:
      out.append('Inverse2exp(%d,%d) = None but %d is invertible mod 2^%d' % (n, k, n, k))
  elif (a * n - 1) % mod:
    out.append('Inverse2exp(%d,%d) = %d: a*n mod 2^%d = %d' % (n, k, a, k, a * n % mod))
  st, a = guarded(u.InverseSqrt2exp, n, k)
  exists = any((x * x * n - 1) % mod == 0 for x in range(mod))
  if st == 'exc':
    out.append('InverseSqrt2exp(%d,%d) raised %s' % (n, k, a))
  elif a is None:
    if exists:
      out.append('InverseSqrt2exp(%d,%d) = None but a solution exists' % (n, k))
  elif (a * a * n - 1) % mod:
    out.append('InverseSqrt2exp(%d,%d) = %d: a*a*n mod 2^%d = %d' %
               (n, k, a, k, a * a * n % mod))
  if n % 2 == 1:
    st, roots = guarded(u.Sqrt2exp, n, k)
    exp = sorted(x for x in range(mod) if (x * x - n) % mod == 0)
    if st == 'exc':
      out.append('Sqrt2exp(%d,%d) raised %s' % (n, k, roots))
    elif sorted(int(r) for r in roots) != exp:
      out.append('Sqrt2exp(%d,%d) = %s, all roots are %s' %
                 (n, k, sorted(int(r) for r in roots), exp))
  return out


def two_adic(lo, hi, kmax):
  r = Result()
  for n in range(lo, hi):
    for k in range(1, kmax + 1):
      bad = case_2adic(n, k)
      r.ev('n%%8=%d' % (n % 8), n % 2 == 1)
      for b in bad:
        r.violation(b, {'fn': '2adic', 'args': {'n': n, 'k': k}})
  r.sample({'n': [lo, hi - 1], 'k': [1, kmax]})
  return r


def two_adic_big(seed):
  r = Result()
  for bits in (64, 65, 127, 128, 255, 256, 1023, 1024, 4095, 4096):
    for i in range(6):
      n = nt.drbg_int('c19big%d-%d-%d' % (seed, bits, i), bits) | 1 | (1 << (bits - 1))
      if i % 2:
        n = (n >> 3 << 3) | 1  # n = 1 mod 8: square roots exist
      if i == 5:
        n &= ~1  # even
      for k in (1, 2, 3, 4, 63, 64, 65, bits - 1, bits, bits + 1, 2 * bits):
        w = world.load()
        u = w.ntheory_util
        mod = 1 << k
        a = u.Inverse2exp(n, k)
        ok = (a is None and n % 2 == 0) or (a is not None and (a * n - 1) % mod == 0)
        s = u.InverseSqrt2exp(n, k)
        if s is not None:
          ok = ok and (s * s * n - 1) % mod == 0
        elif k >= 3:
          ok = ok and n % 8 != 1
        if n % 2:
          roots = u.Sqrt2exp(n, k)
          ok = ok and all((x * x - n) % mod == 0 for x in roots)
          if k >= 3:
            ok = ok and len(set(int(x) % mod for x in roots)) == (4 if n % 8 == 1 else 0)
        r.ev('big n%%8=%d' % (n % 8))
        if not ok:
          r.violation('2-adic routine wrong for a %d-bit n, k=%d' % (bits, k),
                      {'fn': '2adic_big', 'args': {'n': n, 'k': k}})
  r.sample({'bits': [64, 4096], 'k': 'around 64 and around the size of n'})
  return r


def case_2adic_big(n, k):
  w = world.load()
  u = w.ntheory_util
  mod = 1 << k
  out = []
  a = u.Inverse2exp(n, k)
  if a is not None and (a * n - 1) % mod:
    out.append('Inverse2exp wrong')
  if a is None and n % 2:
    out.append('Inverse2exp None for odd n')
  s = u.InverseSqrt2exp(n, k)
  if s is not None and (s * s * n - 1) % mod:
    out.append('InverseSqrt2exp wrong')
  if s is None and k >= 3 and n % 8 == 1:
    out.append('InverseSqrt2exp None although n = 1 mod 8')
  if n % 2:
    roots = u.Sqrt2exp(n, k)
    if any((x * x - n) % mod for x in roots):
      out.append('Sqrt2exp returned a non-root')
    if k >= 3 and len(set(int(x) % mod for x in roots)) != (4 if n % 8 == 1 else 0):
      out.append('Sqrt2exp wrong number of roots')
  return out


# ---- continued fractions, rounded division, sieve ---------------------------

def case_cf(a, b):
  w = world.load()
  st, res = guarded(w.ntheory_util.ContinuedFraction, a, b)
  if st == 'exc':
    return ['ContinuedFraction(%d,%d) raised %s' % (a, b, res)]
  # reference expansion
  qs = []
  x, y = a, b
  while y:
    qs.append(x // y)
    x, y = y, x % y
  out = []
  if [t[0] for t in res] != qs:
    out.append('ContinuedFraction(%d,%d) coefficients %s, expected %s' %
               (a, b, [t[0] for t in res], qs))
  for i in range(len(qs)):
    conv = F(qs[i])
    for q in reversed(qs[:i]):
      conv = q + 1 / conv if conv != 0 else None
      if conv is None:
        break
    if conv is None:
      continue
    if i < len(res) and (res[i][2] == 0 or F(res[i][1], res[i][2]) != conv or
                         math.gcd(res[i][1], res[i][2]) != 1):
      out.append('ContinuedFraction(%d,%d) convergent %d is %r/%r, expected %s' %
                 (a, b, i, res[i][1], res[i][2], conv))
      break
  if res and res[-1][2] and F(res[-1][1], res[-1][2]) != F(a, b):
    out.append('ContinuedFraction(%d,%d): last convergent != a/b' % (a, b))
  return out


def case_divmod(a, b):
  w = world.load()
  st, res = guarded(w.ntheory_util.DivmodRounded, a, b)
  if st == 'exc':
    return ['DivmodRounded(%d,%d) raised %s' % (a, b, res)]
  q, r = res
  if a != q * b + r or 2 * abs(r) > b:
    return ['DivmodRounded(%d,%d) = (%d,%d): need a = q*b + r with |r| <= b/2' % (a, b, q, r)]
  return []


def case_sieve(n):
  w = world.load()
  st, res = guarded(w.ntheory_util.Sieve, n)
  exp = [i for i in range(2, n) if nt.is_prime_td(i)]
  if st == 'exc' or list(res) != exp:
    return ['Sieve(%d) = %s..., expected %s...' % (n, str(res)[:60], str(exp[-5:]))]
  return []


def small_arith(part):
  r = Result()
  if part == 0:
    for b in range(1, 201):
      for a in range(0, 401):
        for x in case_cf(a, b):
          r.violation(x, {'fn': 'cf', 'args': {'a': a, 'b': b}})
        r.ev('cf', a % b != 0)
    for a, b in ((2**64 + 13, 2**32 - 5), (nt.drbg_int('cfa', 512), nt.drbg_int('cfb', 500)),
                 (1, 2**100), (2**100, 1), (0, 7)):
      for x in case_cf(a, b):
        r.violation(x, {'fn': 'cf', 'args': {'a': a, 'b': b}})
      r.ev('cf-big')
  elif part == 1:
    for b in range(1, 61):
      for a in range(-300, 301):
        for x in case_divmod(a, b):
          r.violation(x, {'fn': 'divmod', 'args': {'a': a, 'b': b}})
        r.ev('divmod tie=%s' % (b % 2 == 0 and a % b == b // 2), a % b != 0)
  else:
    for n in range(0, 3001):
      for x in case_sieve(n):
        r.violation(x, {'fn': 'sieve', 'args': {'n': n}})
      r.ev('sieve', n > 2)
  r.sample({'part': ['ContinuedFraction 0<=a<=400, 1<=b<=200',
                     'DivmodRounded |a|<=300, 1<=b<=60', 'Sieve n<=3000'][part]})
  return r


# ---- linear solver --------------------------------------------------------

def case_solve(a, b):
  w = world.load()
  a0 = [list(row) for row in a]
  b0 = list(b)
  st, x = guarded(w.linalg_util.solve_right, [list(row) for row in a], list(b))
  if st == 'exc' or x is None:
    return []
  for row, bi in zip(a0, b0):
    if sum(F(int(c)) * F(int(xi.numerator), int(xi.denominator)) if hasattr(xi, 'numerator')
           else F(c) * F(xi) for c, xi in zip(row, x)) != bi:
      return ['solve_right(%s, %s) = %s does not satisfy row %s = %d' %
              (a0, b0, [str(v) for v in x], row, bi)]
  return []


def _solve_fast(lin, a, b):
  """Returns None|'none'|'exc'|'ok'|'bad' without formatting."""
  try:
    x = lin.solve_right([list(row) for row in a], list(b))
  except Exception:  # pylint: disable=broad-except
    return 'exc'
  if x is None:
    return 'none'
  for row, bi in zip(a, b):
    s = 0
    for c, xi in zip(row, x):
      s += c * xi
    if s != bi:
      return 'bad'
  return 'ok'


_PLANT = [(1, 2, -1, 3, 2, -2, 1, 5), (-1, 0, 3, 1, -2, 2, 7, 1)]


def solver_full(rows, cols, entries, part, nparts):
  w = world.load()
  lin = w.linalg_util
  r = Result()
  idx = 0
  for flat in itertools.product(entries, repeat=rows * cols):
    idx += 1
    if idx % nparts != part:
      continue
    a = [flat[i * cols:(i + 1) * cols] for i in range(rows)]
    for x0 in _PLANT:
      b = [sum(c * x for c, x in zip(row, x0)) for row in a]
      res = _solve_fast(lin, a, b)
      r.ev('%dx%d/%s' % (rows, cols, res), res != 'ok' or any(0 in row for row in a))
      if res == 'bad':
        bad = case_solve(a, b)
        r.violation(bad[0] if bad else 'solve_right returned a wrong vector',
                    {'fn': 'solve', 'args': {'a': [list(x) for x in a], 'b': b}})
        if len(r.violations) > 8:
          return r
  r.sample({'shape': [rows, cols], 'entries': list(entries), 'rhs': 'A*x0 for 2 planted x0'})
  return r


def solver_sub(rows, cols, entries, part, nparts, stride):
  """Sub-space with one special row (zero / duplicate / doubled / sum of two) at every
  position, remaining rows free."""
  w = world.load()
  lin = w.linalg_util
  r = Result()
  nfree = (rows - 1) * cols
  base = len(entries)
  total = base**nfree
  # the idx-th tuple of itertools.product(entries, repeat=nfree), 1-based, decoded directly
  # (iterating the whole product and filtering is hopeless for 2^35 tuples)
  for q in range(0, total // nparts + 1, stride):
    idx = q * nparts + part
    if idx < 1 or idx > total:
      continue
    v = idx - 1
    digits = []
    for _ in range(nfree):
      v, d = divmod(v, base)
      digits.append(entries[d])
    flat = tuple(reversed(digits))
    free = [flat[i * cols:(i + 1) * cols] for i in range(rows - 1)]
    for pos in range(rows):
      for kind in ('zero', 'dup', 'double', 'sum'):
        if kind == 'zero':
          sp = (0,) * cols
        elif kind == 'dup':
          sp = free[(pos) % (rows - 1)]
        elif kind == 'double':
          sp = tuple(2 * v for v in free[(pos + 1) % (rows - 1)])
        else:
          sp = tuple(x + y for x, y in zip(free[0], free[-1]))
        a = free[:pos] + [sp] + free[pos:]
        x0 = _PLANT[(pos + idx) % 2]
        b = [sum(c * x for c, x in zip(row, x0)) for row in a]
        res = _solve_fast(lin, a, b)
        r.ev('%dx%d/%s/%s' % (rows, cols, kind, res))
        if res == 'bad':
          bad = case_solve(a, b)
          r.violation(bad[0] if bad else 'solve_right returned a wrong vector',
                      {'fn': 'solve', 'args': {'a': [list(x) for x in a], 'b': b}})
          if len(r.violations) > 8:
            return r
  r.sample({'shape': [rows, cols], 'entries': list(entries), 'stride': stride,
            'special_row': 'zero/dup/double/sum at every position'})
  return r


def case_triangular(a, b):
  w = world.load()
  st, x = guarded(w.linalg_util.upper_triangular_solve, [list(r_) for r_ in a], list(b))
  singular = any(a[i][i] == 0 for i in range(len(a)))
  if st == 'exc':
    return ['upper_triangular_solve(%s,%s) raised %s' % (a, b, x)]
  if x is None:
    return [] if singular else ['upper_triangular_solve(%s,%s) = None for a regular matrix'
                                % (a, b)]
  if singular:
    return ['upper_triangular_solve(%s,%s) returned a vector for a singular matrix' % (a, b)]
  for row, bi in zip(a, b):
    if sum(c * xi for c, xi in zip(row, x)) != bi:
      return ['upper_triangular_solve(%s,%s) = %s is not a solution' % (a, b, x)]
  return []


def triangular():
  r = Result()
  ent = (-2, -1, 0, 1, 3)
  for m in (1, 2, 3):
    nfree = m * (m + 1) // 2
    for flat in itertools.product(ent, repeat=nfree):
      a = [[0] * m for _ in range(m)]
      it = iter(flat)
      for i in range(m):
        for j in range(i, m):
          a[i][j] = next(it)
      for b in itertools.product((-1, 0, 2), repeat=m):
        bad = case_triangular(a, list(b))
        r.ev('tri%d/%s' % (m, 'singular' if any(a[i][i] == 0 for i in range(m)) else 'regular'))
        for x in bad:
          r.violation(x, {'fn': 'triangular', 'args': {'a': a, 'b': list(b)}})
  r.sample({'upper_triangular': 'all matrices m<=3 over %s x rhs over (-1,0,2)' % (ent,)})
  return r


# ---- pseudo-average, bias, distributions -----------------------------------

def ref_pseudo_average_set(a, n):
  """All acceptable results: rounded mean (either tie direction) of any
  variance-minimising lift b_i in {a_i, a_i + n}, reduced mod n."""
  m = len(a)
  best = None
  lifts = []
  for mask in range(1 << m):
    b = [a[i] + (n if (mask >> i) & 1 else 0) for i in range(m)]
    s = sum(b)
    var = m * sum(x * x for x in b) - s * s  # m^2 * variance, exact
    if best is None or var < best:
      best, lifts = var, [s]
    elif var == best:
      lifts.append(s)
  ok = set()
  for s in lifts:
    mean = F(s, m)
    for cand in (math.floor(mean), math.ceil(mean)):
      if abs(cand - mean) <= F(1, 2):
        ok.add(cand % n)
  return ok


def case_pavg(a, n):
  w = world.load()
  st, got = guarded(w.lattice_suite.PseudoAverage, list(a), n)
  ok = ref_pseudo_average_set(list(a), n)
  if st == 'exc' or got not in ok:
    return ['PseudoAverage(%s, %d) = %r, acceptable (rounded mean of a variance-minimising '
            'lift): %s' % (list(a), n, got, sorted(ok))]
  return []


def pavg(n_lo, n_hi, maxlen):
  r = Result()
  for n in range(n_lo, n_hi + 1):
    for ln in range(1, maxlen + 1):
      for a in itertools.product(range(n), repeat=ln):
        bad = case_pavg(a, n)
        r.ev('pavg len%d' % ln, len(set(a)) > 1)
        for b in bad:
          r.violation(b, {'fn': 'pavg', 'args': {'a': list(a), 'n': n}})
      if len(r.violations) > 8:
        return r
  r.sample({'moduli': [n_lo, n_hi], 'list_length<=': maxlen})
  return r


def _close(got, exp, rel=1e-9, ab=1e-12):
  got, exp = float(got), float(exp)
  return abs(got - exp) <= ab + rel * abs(exp)


def case_usum(n, x8):
  w = world.load()
  x = x8 / 8.0
  st, got = guarded(w.rt_util.UniformSumCdf, n, x)
  exp = float(rs.irwin_hall_cdf(n, F(x8, 8)))
  tol = 1e-9 if n <= 36 else 5e-3
  if st == 'exc' or not (abs(float(got) - exp) <= tol) or not (-1e-9 <= got <= 1 + 1e-9):
    return ['UniformSumCdf(%d, %s) = %r, exact Irwin-Hall value %.12g (tolerance %g)' %
            (n, x, got, exp, tol)]
  return []


def usum(n_lo, n_hi):
  r = Result()
  for n in range(n_lo, n_hi + 1):
    for x8 in range(-8, 8 * n + 9):
      bad = case_usum(n, x8)
      r.ev('usum %s' % ('exact-branch' if n <= 36 else 'normal-branch'), 0 < x8 < 8 * n)
      for b in bad:
        r.violation(b, {'fn': 'usum', 'args': {'n': n, 'x8': x8}})
  r.sample({'n': [n_lo, n_hi], 'x': 'every multiple of 1/8 in [-1, n+1]'})
  return r


def case_bias(sample, n, transforms):
  w = world.load()
  st, got = guarded(w.lattice_suite.Bias, list(sample), n, [tuple(t) for t in transforms])
  t = 0
  for s in sample:
    for a, b in transforms:
      v = (a * s + b) % n
      t += min(v, n - v)
  cnt = len(sample) * len(transforms)
  exp = float(rs.irwin_hall_cdf(cnt, F(2 * t, n)))
  if st == 'exc' or abs(float(got) - exp) > 1e-6:
    return ['Bias(%s, %d, %s) = %r, definition gives %.12g' %
            (list(sample), n, transforms, got, exp)]
  return []


def bias():
  r = Result()
  for n in (2, 3, 7, 8, 16, 101):
    vals = range(n) if n <= 8 else (0, 1, n // 2, n - 1, n // 3)
    for ln in (1, 2, 3):
      for sample in itertools.product(vals, repeat=ln):
        for transforms in ([(1, 0)], [(3, 1)], [(1, 0), (n - 1, 2)]):
          bad = case_bias(sample, n, transforms)
          r.ev('bias')
          for b in bad:
            r.violation(b, {'fn': 'bias', 'args': {'sample': list(sample), 'n': n,
                                                   'transforms': [list(t) for t in transforms]}})
  r.sample({'Bias': 'all samples of length <=3 over small moduli x 3 transform lists'})
  return r


def case_special(fn, args):
  w = world.load()
  u = w.rt_util
  if fn == 'CombinedPValue':
    got = guarded(u.CombinedPValue, list(args))
    exp = rs.fisher(list(args))
  elif fn == 'Igamc':
    got = guarded(u.Igamc, *args)
    exp = rs.igamc(*args)
  elif fn == 'NormalCdf':
    got = guarded(u.NormalCdf, *args)
    exp = rs.normal_cdf(*args)
  elif fn == 'BinomialCdf':
    got = guarded(u.BinomialCdf, *args)
    exp = rs.binomial_cdf(*args)
  else:
    raise ValueError(fn)
  if got[0] == 'exc' or not _close(got[1], exp, 1e-9, 1e-13):
    return ['%s%r = %r, reference %.15g' % (fn, tuple(args), got[1], float(exp))]
  return []


def special():
  r = Result()
  ps = [0.0, 1e-300, 1e-12, 1e-9, 0.01, 0.3, 0.5, 0.999, 1.0]
  for ln in (1, 2, 3):
    for pv in itertools.product(ps, repeat=ln):
      for b in case_special('CombinedPValue', list(pv)):
        r.violation(b, {'fn': 'special', 'args': {'fn': 'CombinedPValue', 'args': list(pv)}})
      r.ev('fisher len%d' % ln, ln > 1 and min(pv) > 0)
  for ln in (5, 10, 30):
    pv = [ps[3 + (i * 7) % 6] for i in range(ln)]
    for b in case_special('CombinedPValue', pv):
      r.violation(b, {'fn': 'special', 'args': {'fn': 'CombinedPValue', 'args': pv}})
    r.ev('fisher long')
  for a in (0.5, 1, 1.5, 2, 3, 5, 10, 31.5, 100, 512):
    for x in (0, 1e-9, 0.1, 0.5, 1, 2, 5, 10, 50, 100, 700, 5000):
      for b in case_special('Igamc', [a, x]):
        r.violation(b, {'fn': 'special', 'args': {'fn': 'Igamc', 'args': [a, x]}})
      r.ev('igamc')
  for x in (-40, -8, -3, -1, -0.5, 0, 0.25, 1, 2.5, 6, 9, 40):
    for mean, var in ((0, 1), (0.5, 1 / 12), (18, 3), (-2, 100)):
      for b in case_special('NormalCdf', [x, mean, var]):
        r.violation(b, {'fn': 'special', 'args': {'fn': 'NormalCdf', 'args': [x, mean, var]}})
      r.ev('normalcdf')
  for m in list(range(0, 41)) + [100, 1000]:
    for n in sorted(set(list(range(-1, min(m, 40) + 2)) + [m // 2, m])):
      for b in case_special('BinomialCdf', [n, m]):
        r.violation(b, {'fn': 'special', 'args': {'fn': 'BinomialCdf', 'args': [n, m]}})
      r.ev('binomcdf')
  r.sample({'special_functions': 'CombinedPValue lists <=3 over 9 values; Igamc 10x12 grid; '
            'NormalCdf 12x4; BinomialCdf all n<=m<=40'})
  return r


# ---- small roots ------------------------------------------------------------

def _modulus(bits, seed):
  p = nt.rand_prime('c19p%d-%d' % (bits, seed), bits // 2)
  q = nt.rand_prime('c19q%d-%d' % (bits, seed), bits // 2)
  return p, q, p * q


def case_roots(kind, bits, unknown, seed, variant=0):
  """Planted-root instance. Returns violation texts; completeness asserted only
  when `unknown` is inside the calibrated region (see plan)."""
  import sympy
  w = world.load()
  sr = w.small_roots
  p, q, n = _modulus(bits, seed)
  out = []
  if kind == 'uni-high':
    x = sympy.Symbol('x')
    p0 = (p >> unknown) << unknown
    f = sympy.Poly(p0 + x, modulus=n)
    st, rx = guarded(sr.univariate_modp, f, 2**unknown)
    if st == 'exc':
      return ['univariate_modp raised %s' % rx]
    if rx is None:
      return ['univariate_modp: planted root of %d bits (modulus %d bits) not found' %
              (unknown, bits)]
    if (p0 + int(rx)) % p and (p0 + int(rx)) % q:
      out.append('univariate_modp returned %d which is not a root modulo a factor' % rx)
    elif p0 + int(rx) != p and variant == 0:
      pass  # another true root is acceptable
  elif kind == 'uni-low':
    x = sympy.Symbol('x')
    l = p.bit_length() - unknown
    p0 = p % 2**l
    f = sympy.Poly(x * 2**l + p0, modulus=n)
    st, rx = guarded(sr.univariate_modp, f, 2**unknown)
    if st == 'exc':
      return ['univariate_modp raised %s' % rx]
    if rx is None:
      return ['univariate_modp(low bits known): planted root of %d bits (modulus %d bits) '
              'not found' % (unknown, bits)]
    v = int(rx) * 2**l + p0
    if v % p and v % q:
      out.append('univariate_modp returned a non-root')
  elif kind == 'bi-modp':
    x1, x2 = sympy.symbols('x1, x2')
    u1 = u2 = unknown // 2
    known = p.bit_length() - u1 - u2
    lx1 = known + u2
    p0 = ((p >> u2) % 2**known) << u2
    f = sympy.Poly(p0 + x1 * 2**lx1 + x2, modulus=n)
    st, roots = guarded(sr.multivariate_modp, f, [2**u1, 2**u2])
    if st == 'exc':
      return ['multivariate_modp raised %s' % roots]
    if roots is None:
      return ['multivariate_modp: planted roots of %d+%d bits (modulus %d bits) not found' %
              (u1, u2, bits)]
    v = p0 + int(roots[0]) * 2**lx1 + int(roots[1])
    if v % p and v % q:
      out.append('multivariate_modp returned a non-root')
  elif kind == 'bi-modn':
    x1, x2 = sympy.symbols('x1, x2')
    u1 = u2 = unknown // 2
    p0 = (p >> u1) << u1
    q0 = (q >> u2) << u2
    f = sympy.Poly((p0 + x1) * (q0 + x2), modulus=n)
    st, roots = guarded(sr.multivariate_modn, f, [2**u1, 2**u2])
    if st == 'exc':
      return ['multivariate_modn raised %s' % roots]
    if roots is None:
      return ['multivariate_modn: planted roots of %d+%d bits (modulus %d bits) not found' %
              (u1, u2, bits)]
    if (p0 + int(roots[0])) * (q0 + int(roots[1])) % n:
      out.append('multivariate_modn returned a non-root')
  return out


# calibrated on the pinned tree (see DESIGN.md C19): fraction of the modulus size that
# the default lattice parameters recover reliably
ROOT_BOUND = {'uni-high': 0.19, 'uni-low': 0.19, 'bi-modp': 0.115, 'bi-modn': 0.33}


def roots(kind, bits, seed):
  r = Result()
  for frac in (0.25, 0.5, 0.75):
    unknown = int(ROOT_BOUND[kind] * bits * frac)
    bad = case_roots(kind, bits, unknown, seed)
    r.ev('%s/%s' % (kind, 'found' if not bad else 'fail'))
    for b in bad:
      r.violation(b, {'fn': 'roots', 'args': {'kind': kind, 'bits': bits,
                                              'unknown': unknown, 'seed': seed}})
  # beyond the bound: only soundness (None is fine)
  for frac in (1.3, 2.0):
    unknown = int(ROOT_BOUND[kind] * bits * frac)
    bad = [b for b in case_roots(kind, bits, unknown, seed) if 'not found' not in b]
    r.ev('%s/beyond' % kind)
    for b in bad:
      r.violation(b, {'fn': 'roots', 'args': {'kind': kind, 'bits': bits,
                                              'unknown': unknown, 'seed': seed}})
  r.sample({'finder': kind, 'modulus_bits': bits, 'root_bits': [int(ROOT_BOUND[kind] * bits * f)
                                                               for f in (0.25, 0.5, 0.75)]})
  return r


CASES = {'2adic': case_2adic, '2adic_big': case_2adic_big, 'cf': case_cf,
         'divmod': case_divmod, 'sieve': case_sieve, 'solve': case_solve,
         'triangular': case_triangular, 'pavg': case_pavg, 'usum': case_usum,
         'bias': case_bias, 'special': case_special, 'roots': case_roots}


def plan(tier, seed):
  thorough = tier == 'thorough'
  T = []
  kmax = 14 if thorough else 12
  nmax = 1 << (13 if thorough else 12)
  step = nmax // 16
  for lo in range(0, nmax, step):
    T.append(Task('2-adic', 'two_adic', {'lo': lo, 'hi': lo + step, 'kmax': kmax},
                  bound='all n < %d (odd and even) x all k in 1..%d' % (nmax, kmax),
                  weight=step * 2**kmax / 4))
  T.append(Task('2-adic-big', 'two_adic_big', {'seed': seed}, complete=False,
                bound='64..4096-bit n, k around word and operand sizes', weight=1e5))
  for part in range(3):
    T.append(Task('cf-divmod-sieve', 'small_arith', {'part': part},
                  bound='all operands in the stated ranges', weight=3e6))
  shapes = [(2, 2, (-1, 0, 1, 2), 1), (3, 2, (-1, 0, 1, 2), 1), (3, 3, (-1, 0, 1, 2), 16),
            (4, 2, (-1, 0, 1, 2), 4), (4, 3, (0, 1, -1), 16), (5, 2, (0, 1, -1), 4)]
  if thorough:
    shapes += [(4, 4, (0, 1), 4), (5, 3, (0, 1), 2), (4, 4, (0, 1, -1), 64)]
  for rows, cols, ent, nparts in shapes:
    for part in range(nparts):
      T.append(Task('solver-all-matrices', 'solver_full',
                    {'rows': rows, 'cols': cols, 'entries': list(ent), 'part': part,
                     'nparts': nparts},
                    bound='every matrix of shapes 2x2,3x2,3x3,4x2 over {-1,0,1,2}; 4x3,5x2 '
                    'over {0,1,-1}%s x 2 planted right-hand sides' %
                    ('; 4x4,5x3 over {0,1}; 4x4 over {0,1,-1}' if thorough else ''),
                    weight=len(ent)**(rows * cols) / nparts * 10))
  subs = [(5, 4, (0, 1), 16, 1)]
  if thorough:
    subs += [(6, 4, (0, 1), 32, 1), (6, 5, (0, 1), 32, 64), (8, 5, (0, 1), 32, 1 << 17),
             (5, 4, (0, 1, -1), 32, 64)]
  else:
    subs += [(6, 4, (0, 1), 16, 64), (6, 5, (0, 1), 16, 4096)]
  for rows, cols, ent, nparts, stride in subs:
    for part in range(nparts):
      T.append(Task('solver-special-rows', 'solver_sub',
                    {'rows': rows, 'cols': cols, 'entries': list(ent), 'part': part,
                     'nparts': nparts, 'stride': stride}, complete=(stride == 1),
                    bound='one zero/duplicate/doubled/sum row at every position, other rows '
                    'free: %s' % ', '.join('%dx%d over %s stride %d' % (a_, b_, list(c_), e_)
                                           for a_, b_, c_, _, e_ in subs),
                    weight=len(ent)**((rows - 1) * cols) / nparts / stride * rows * 40))
  T.append(Task('upper-triangular', 'triangular', {}, bound='all m<=3', weight=1e5))
  for n in range(1, 13):
    T.append(Task('pseudo-average', 'pavg', {'n_lo': n, 'n_hi': n, 'maxlen': 5 if (
        thorough and n <= 9) else 4},
                  bound='all residue lists of length <=4 over every modulus <=12; <=7 over '
                  'moduli <=5', weight=n**4 * 20))
  for n in range(2, 6):
    T.append(Task('pseudo-average', 'pavg', {'n_lo': n, 'n_hi': n, 'maxlen': 7},
                  bound='', weight=n**7 * 130))
  for lo in range(1, 101, 10):
    T.append(Task('uniform-sum-cdf', 'usum', {'n_lo': lo, 'n_hi': lo + 9},
                  bound='all n <= 100, x on the 1/8 grid over [-1, n+1]', weight=lo * 2e4))
  T.append(Task('bias', 'bias', {}, bound='all samples <=3 over small moduli', weight=1e5))
  T.append(Task('special-functions', 'special', {}, complete=False,
                bound='grids (see sample)', weight=1e5))
  for kind in ROOT_BOUND:
    for bits in ((256, 512, 1024, 2048) if thorough else (256, 512, 1024)):
      for sd in range(12 if thorough else 4):
        T.append(Task('small-roots', 'roots', {'kind': kind, 'bits': bits, 'seed': seed + sd},
                      complete=False,
                      bound='planted roots at 0.25/0.5/0.75 of the calibrated bound '
                      '(found + true), and beyond it (true or None)', weight=bits**2 * 50))
  return T
