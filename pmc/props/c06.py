"""C06 -- checks with a closed-form criterion flag exactly the artifacts that
meet it."""
import hashlib
import itertools

from pmc import art, world
from pmc.core import Result, Task, guarded
from pmc.refs import ec as rec
from pmc.refs import nt

ID = 'C06'
LEVEL = 'exploration'
LEVEL_TEXT = ('Bounded-exhaustive exploration of each closed-form criterion: every bit '
              'length 64..4200 (two moduli each, with leading-zero encodings), every exponent '
              '0..131080, every residue of every ROCA / ROCA-variant prime (CRT-composed '
              'moduli), OpenSSL-denylist decisions over user Storage objects (environment '
              'answers), every one of the 256 x 3 keypair seeds, every curve identifier x a '
              'coordinate alphabet, and every (x,y) in [0,2p)^2 on tiny curves with cofactor '
              '1..4; each against an independent statement of the criterion.')
TECHNIQUE = ('bounded-exhaustive enumeration of complete parameter ranges / residue classes / '
             'table entries on the real checks vs. closed-form criterion (M1/M3)')
RULE = ('every value of the enumerated range per criterion; distinct by construction; '
        'non-trivial = the case is within one step of the decision boundary or the criterion '
        'is met (flagged); outcome classes separate flagged / clean per check')
ASSUMPTIONS = ['proto/pybind shims of pmc.world',
               'independent re-implementation of the CVE-2021-41117 generator (sha1 + AES-ECB '
               'from the cryptography package)', 'gmpy2 primality test',
               'weak_keylist.*.dat are emptied in this checkout: the OpenSSL criterion is '
               'exercised through user Storage objects only']


def _check(w, cls, keys, *a):
  c = cls(*a)
  return guarded(c.Check, keys)


def _entry_is(key, name, flagged):
  e = art.entry(key.test_info, name)
  return e is not None and e[0] == flagged


# ---- sizes and exponents ------------------------------------------------------

def case_size(n, lead):
  w = world.load()
  k = art.rsa_key(n, 65537, lead=lead)
  st, ret = _check(w, w.rsa_single_checks.CheckSizes, [k])
  flagged = n.bit_length() < 2048
  if st == 'exc':
    return ['CheckSizes raised %s on a %d-bit modulus' % (ret, n.bit_length())]
  if ret is not flagged or not _entry_is(k, 'CheckSizes', flagged) or \
      k.test_info.weak != flagged:
    return ['CheckSizes on a %d-bit modulus (%d leading zero bytes): returned %r, entry %r; '
            'criterion: flagged iff length < 2048' %
            (n.bit_length(), lead, ret, art.entry(k.test_info, 'CheckSizes'))]
  return []


def sizes(lo, hi):
  r = Result()
  for L in range(lo, hi):
    for n, lead in ((1 << (L - 1), 0), ((1 << L) - 1, 0), ((1 << (L - 1)) | 1, 1),
                    ((1 << L) - 1, 3)):
      for b in case_size(n, lead):
        r.violation(b, {'fn': 'size', 'args': {'n': n, 'lead': lead}})
      r.ev('size/%s' % ('flag' if L < 2048 else 'clean'), abs(L - 2048) <= 8)
  r.sample({'bit_lengths': [lo, hi - 1], 'moduli': ['2^(L-1)', '2^L-1'],
            'leading_zero_bytes': [0, 1, 3]})
  return r


def case_exponent(e, enc):
  w = world.load()
  k = art.rsa_key((1 << 2047) | 1, None)
  if enc == 'min':
    k.rsa_info.e = art.i2b(e)
  elif enc == 'lead':
    k.rsa_info.e = b'\x00\x00' + art.i2b(e)
  elif enc == 'fixed4':
    k.rsa_info.e = int(e).to_bytes(max(4, (int(e).bit_length() + 7) // 8), 'big')
  st, ret = _check(w, w.rsa_single_checks.CheckExponents, [k])
  flagged = e != 65537
  if st == 'exc':
    return ['CheckExponents raised %s for e=%d' % (ret, e)]
  if ret is not flagged or not _entry_is(k, 'CheckExponents', flagged):
    return ['CheckExponents for e=%d (%s encoding): returned %r; criterion: flagged iff '
            'e != 65537' % (e, enc, ret)]
  return []


def exponents(lo, hi):
  r = Result()
  for e in range(lo, hi):
    for enc in (('min',) if abs(e - 65537) > 300 else ('min', 'lead', 'fixed4')):
      for b in case_exponent(e, enc):
        r.violation(b, {'fn': 'exponent', 'args': {'e': e, 'enc': enc}})
      r.ev('exp/%s' % ('flag' if e != 65537 else 'clean'), abs(e - 65537) <= 300)
  if lo == 0:
    for e in (2**32 + 1, 2**16, 2**17 + 1, 65537 + 2**32, 65537 << 8, 2**64 + 1):
      for enc in ('min', 'lead'):
        for b in case_exponent(e, enc):
          r.violation(b, {'fn': 'exponent', 'args': {'e': e, 'enc': enc}})
        r.ev('exp/flag', True)
  r.sample({'exponents': [lo, hi - 1], 'encodings': ['minimal', 'leading zeros', '4 bytes']})
  return r


# ---- ROCA ---------------------------------------------------------------------

ROCA_PRIMES = [p for p in nt.sieve(174) if p >= 3]
VARIANT_PRIMES = [p for p in nt.sieve(230) if p >= 5]


def _crt(residues):
  """residues: {prime: r}. Smallest non-negative solution."""
  x, m = 0, 1
  for p, r in residues.items():
    t = ((r - x) * pow(m, -1, p)) % p
    x += m * t
    m *= p
  return x, m


def _pow_group(p):
  g, s, x = 65537 % p, set(), 1
  for _ in range(p):
    s.add(x)
    x = x * g % p
  return s


def ref_roca(n):
  return all(n % p in _pow_group(p) for p in ROCA_PRIMES)


def ref_variant(n):
  """None = the statement does not decide (n divisible by one of the primes: whether 0
  counts as a quadratic residue is a matter of convention)."""
  if any(n % p == 0 for p in VARIANT_PRIMES):
    return None
  return all(pow(n % p, (p - 1) // 2, p) == 1 for p in VARIANT_PRIMES) and not ref_roca(n)


def case_roca(n, which):
  w = world.load()
  out = []
  if which == 'roca':
    exp = ref_roca(n)
    st, got = guarded(w.roca.ROCAKeyDetector().IsWeak, n)
    name, cls = 'CheckROCA', w.rsa_single_checks.CheckROCA
  else:
    exp = ref_variant(n)
    st, got = guarded(w.roca.ROCAKeyVariantDetector().IsWeak, n)
    name, cls = 'CheckROCAVariant', w.rsa_single_checks.CheckROCAVariant
  if exp is None:
    return [] if st == 'ok' else ['%s detector raised %s' % (which, got)]
  if st == 'exc' or bool(got) != exp:
    out.append('%s detector IsWeak(n) = %r for n mod primes = %s...; criterion gives %r' %
               (which, got, [n % p for p in ROCA_PRIMES[:8]], exp))
  k = art.rsa_key(n)
  st, ret = _check(w, cls, [k])
  if st == 'exc' or ret is not exp or not _entry_is(k, name, exp):
    out.append('%s.Check returned %r, entry %r; criterion gives %r' %
               (name, ret, art.entry(k.test_info, name), exp))
  return out


def _lift(x, m, bits, label):
  """A modulus of the given size congruent to x mod m."""
  k = nt.drbg_int(label, max(bits - m.bit_length(), 8)) | (1 << max(bits - m.bit_length() - 1, 7))
  return x + m * k


def roca_residues(seed):
  r = Result()
  M = nt.prod(ROCA_PRIMES)
  # every residue of every prime, all other primes at a power of 65537
  for p in ROCA_PRIMES:
    grp = _pow_group(p)
    for res in range(p):
      residues = {q: pow(65537, (q * 7 + res) % (q - 1), q) for q in ROCA_PRIMES}
      residues[p] = res
      x, m = _crt(residues)
      n = _lift(x, m, 2048, 'roca%d-%d-%d' % (seed, p, res))
      for b in case_roca(n, 'roca'):
        r.violation(b, {'fn': 'roca', 'args': {'n': n, 'which': 'roca'}})
      r.ev('roca/%s' % ('member' if res in grp else 'nonmember'), True)
  # small / degenerate moduli and ROCA-structured products
  for n in (65537, 65537**2 % M, 1, M + 1, 2**2047 + 1, 2**64 + 13):
    for b in case_roca(n, 'roca'):
      r.violation(b, {'fn': 'roca', 'args': {'n': n, 'which': 'roca'}})
    r.ev('roca/misc', True)
  for i in range(8):
    ps = []
    for j in range(2):
      k = nt.drbg_int('rocap%d-%d-%d' % (seed, i, j), 40)
      a = nt.drbg_int('rocaa%d-%d-%d' % (seed, i, j), 60)
      c = k * M + pow(65537, a, M)
      while not nt.is_prime(c):
        k += 1
        c = k * M + pow(65537, a, M)
      ps.append(c)
    n = ps[0] * ps[1]
    for b in case_roca(n, 'roca'):
      r.violation(b, {'fn': 'roca', 'args': {'n': n, 'which': 'roca'}})
    r.ev('roca/structured-product', True)
  r.sample({'roca': 'every residue of each of the %d primes (others fixed at powers of '
            '65537), CRT-lifted to 2048 bits' % len(ROCA_PRIMES)})
  return r


def variant_residues(seed):
  r = Result()
  allp = sorted(set(ROCA_PRIMES) | set(VARIANT_PRIMES))
  # a base assignment that is QR everywhere but not a power of 65537 at one ROCA prime
  escape = None
  for p in ROCA_PRIMES:
    qr = {x * x % p for x in range(1, p)}
    cand = sorted(qr - _pow_group(p))
    if cand:
      escape = (p, cand[0])
      break
  assert escape, 'no ROCA prime distinguishes QR from <65537>'
  base = {q: 4 % q if q > 3 else 1 for q in allp}  # 4 is a square everywhere
  for q in ROCA_PRIMES:
    if 4 % q not in _pow_group(q):
      break
  for p in VARIANT_PRIMES:
    for res in range(p):
      for roca_like in (False, True):
        residues = dict(base)
        if roca_like:
          # powers of 65537^2 : QR and ROCA member everywhere
          residues = {q: pow(65537, 2 * ((q + res) % (q - 1)), q) for q in allp}
        else:
          residues[escape[0]] = escape[1]
        if p != escape[0] or roca_like:
          residues[p] = res
        x, m = _crt(residues)
        n = _lift(x, m, 2048, 'var%d-%d-%d-%d' % (seed, p, res, roca_like))
        for b in case_roca(n, 'variant'):
          r.violation(b, {'fn': 'roca', 'args': {'n': n, 'which': 'variant'}})
        rv = ref_variant(n)
        r.ev('variant/%s' % ('undecided-residue-0' if rv is None else ('flag' if rv else (
            'roca' if ref_roca(n) else 'clean'))), rv is not None)
  r.sample({'variant': 'every residue of each of the %d primes x {QR-everywhere-non-ROCA, '
            'ROCA-member} base assignment' % len(VARIANT_PRIMES), 'escape_prime': escape})
  return r


# ---- OpenSSL denylist over user storages (M3) ------------------------------------

def ref_fingerprint(n):
  return hashlib.sha1(('Modulus=%X\n' % n).encode()).hexdigest()[20:]


def _storage(w, deny):
  class S(w.storage.Storage):

    def GetUnseededRands(self, size):
      return frozenset()

    def GetKeypairData(self):
      return w.default_storage.DefaultStorage().GetKeypairData()

    def GetOpensslDenylist(self):
      return deny

  return S()


def case_openssl(n, variant, container, lead):
  w = world.load()
  fp = ref_fingerprint(n)
  label = 'RSA-%d' % n.bit_length()
  other = 'RSA-%d' % (n.bit_length() + 1)
  items = {
      'right': ['%s:%s' % (label, fp)],
      'right+others': ['RSA-1024:' + '0' * 20, '%s:%s' % (label, fp), 'RSA-2048:' + 'f' * 20],
      'wrong-label': ['%s:%s' % (other, fp)],
      'upper': ['%s:%s' % (label, fp.upper())] if fp != fp.upper() else [],
      'truncated': ['%s:%s' % (label, fp[:19])],
      'prefix-of-sha1': ['%s:%s' % (label, hashlib.sha1(('Modulus=%X\n' % n).encode())
                                     .hexdigest()[:20])],
      'no-label': [fp],
      'empty': [],
      'neighbour': ['%s:%s' % (label, ref_fingerprint(n + 2))],
  }[variant]
  exp = variant in ('right', 'right+others')
  if variant == 'prefix-of-sha1' and items[0].split(':')[1] == fp:
    exp = True
  deny = {'set': set(items), 'frozenset': frozenset(items), 'list': list(items),
          'tuple': tuple(items), 'dict_keys': dict.fromkeys(items).keys()}[container]
  k = art.rsa_key(n, lead=lead)
  st, chk = guarded(w.rsa_single_checks.CheckOpensslDenylist, _storage(w, deny))
  if st == 'exc':
    return ['CheckOpensslDenylist(storage with %s) raised %s' % (container, chk)]
  st, ret = guarded(chk.Check, [k])
  if st == 'exc' or ret is not exp or not _entry_is(k, 'CheckOpensslDenylist', exp):
    return ['CheckOpensslDenylist with list variant %r (%s), %d-bit modulus, %d leading zero '
            'bytes: returned %r; openssl-vulnkey criterion gives %r' %
            (variant, container, n.bit_length(), lead, ret, exp)]
  return []


def openssl(seed):
  r = Result()
  mods = []
  for bits in (1024, 2047, 2048, 4096, 64, 65):
    mods.append(nt.rand_prime('ossl%d-%d' % (seed, bits), bits // 2 + bits % 2) *
                nt.rand_prime('osslq%d-%d' % (seed, bits), bits // 2))
  mods += [(1 << 1023) | 0xA5, (1 << 2047) | 1]
  for n in mods:
    for variant in ('right', 'right+others', 'wrong-label', 'upper', 'truncated',
                    'prefix-of-sha1', 'no-label', 'empty', 'neighbour'):
      for container in ('set', 'frozenset', 'list', 'tuple', 'dict_keys'):
        for lead in (0, 1):
          for b in case_openssl(n, variant, container, lead):
            r.violation(b, {'fn': 'openssl', 'args': {'n': n, 'variant': variant,
                                                      'container': container, 'lead': lead}})
          r.ev('openssl/%s' % variant, True)
  # default storage: emptied lists in this checkout -> nothing is flagged
  w = world.load()
  k = art.rsa_key(mods[0])
  st, ret = _check(w, w.rsa_single_checks.CheckOpensslDenylist, [k])
  r.ev('openssl/default-storage', False)
  if st == 'exc':
    r.violation('CheckOpensslDenylist with the default storage raised %s' % ret,
                {'fn': 'openssl', 'args': {'n': mods[0], 'variant': 'empty',
                                           'container': 'set', 'lead': 0}})
  r.sample({'moduli_bits': [m.bit_length() for m in mods], 'list_variants': 9, 'containers': 5})
  return r


# ---- keypair (CVE-2021-41117) ---------------------------------------------------------

def ref_keypair(seed_bytes, bits):
  """Independent transcription of keypair's PRNG + prime search."""
  import gmpy2
  from cryptography.hazmat.primitives.ciphers import Cipher, algorithms, modes

  def aes(key, block):
    e = Cipher(algorithms.AES(key), modes.ECB()).encryptor()
    return e.update(block) + e.finalize()

  key = hashlib.sha1(hashlib.sha1(seed_bytes).digest()).digest()
  st = {'key': key[:16], 'seed': hashlib.sha1(key).digest()[:16]}

  def block():
    out = aes(st['key'], st['seed'])
    inc = ((int.from_bytes(st['seed'], 'big') + 1) % (1 << 128)).to_bytes(16, 'big')
    st['key'] = aes(st['key'], inc)
    st['seed'] = aes(st['key'], inc)
    return out

  def prime(pbits):
    nbytes = pbits // 8
    deltas = [6, 4, 2, 4, 2, 4, 6, 2]
    while True:
      buf = b''
      while len(buf) <= nbytes:
        buf += block()
      p = int.from_bytes(buf[1:nbytes + 1], 'big') | (1 << (pbits - 1))
      p += 31 - p % 30
      i = 0
      while not gmpy2.is_prime(p, 1):
        p += deltas[i % 8]
        i += 1
      if gmpy2.is_prime(p, 10):
        return int(p)

  p = prime(bits // 2)
  q = prime(bits // 2)
  while True:
    if q > p:
      p, q = q, p
    if (p * q).bit_length() == bits:
      return p, q
    q = prime(bits // 2)


_table = {}


def _kp_table():
  if not _table:
    w = world.load()
    _table.update(dict(w.default_storage.DefaultStorage().GetKeypairData().table))
  return _table


def case_keypair(b0, bits):
  w = world.load()
  tab = _kp_table()
  seed = bytes([b0] + [0] * 31)
  p, q = ref_keypair(seed, bits)
  n = p * q
  msb = n >> (n.bit_length() - 64)
  covered = msb in tab and tab[msb][0] == b0 and len(tab[msb]) == 1
  k = art.rsa_key(n)
  st, ret = _check(w, w.rsa_single_checks.CheckKeypairDenylist, [k])
  out = []
  if st == 'exc':
    return ['CheckKeypairDenylist raised %s (seed byte %d, %d bits)' % (ret, b0, bits)]
  f = art.factors(k.test_info)
  if covered:
    if ret is not True or not _entry_is(k, 'CheckKeypairDenylist', True) or f != frozenset([p, q]):
      out.append('key generated by the vulnerable generator from covered seed %02x00.. (%d '
                 'bits) not flagged/factored: returned %r, factors %r' % (b0, bits, ret, f))
  elif ret:
    if f is None or any(n % x for x in f):
      out.append('uncovered keypair key flagged with wrong factors')
  return out


def keypair(b0s, sizes_):
  r = Result()
  tab = _kp_table()
  for b0 in b0s:
    for bits in sizes_:
      bad = case_keypair(b0, bits)
      seed = bytes([b0] + [0] * 31)
      p, q = ref_keypair(seed, bits)
      msb = (p * q) >> ((p * q).bit_length() - 64)
      hit = msb in tab
      if hit:
        r.extra['_hit:%d' % msb] = 1
      r.ev('keypair/%d/%s' % (bits, 'covered' if hit else 'uncovered'), hit)
      for b in bad:
        r.violation(b, {'fn': 'keypair', 'args': {'b0': b0, 'bits': bits}})
  r.sample({'seed_first_bytes': [b0s[0], b0s[-1]], 'sizes': sizes_})
  return r


def keypair_negative(seed):
  """Keys that collide with a table entry on the 64 msb but are not the generated key, and
  healthy keys: never flagged."""
  w = world.load()
  r = Result()
  tab = _kp_table()
  for i, msb in enumerate(sorted(tab)[:24]):
    for bits in (2048, 4096):
      n = (msb << (bits - 64)) | nt.drbg_int('kpneg%d-%d' % (seed, i), bits - 64) | 1
      k = art.rsa_key(n)
      st, ret = _check(w, w.rsa_single_checks.CheckKeypairDenylist, [k])
      f = art.factors(k.test_info)
      r.ev('keypair/msb-collision', True)
      if st == 'exc' or (ret and (f is None or nt.prod(f) != n)):
        r.violation('modulus sharing the 64 msb of a table entry: returned %r, factors %r' %
                    (ret, f), {'fn': 'keypair_neg', 'args': {'n': n}})
  r.sample({'keypair_negative': '64-msb collisions with 24 table entries x 2 sizes'})
  return r


def case_keypair_neg(n):
  w = world.load()
  k = art.rsa_key(n)
  st, ret = _check(w, w.rsa_single_checks.CheckKeypairDenylist, [k])
  f = art.factors(k.test_info)
  if st == 'exc' or (ret and (f is None or nt.prod(f) != n)):
    return ['flagged without a factorisation: %r %r' % (ret, f)]
  return []


def post(extra, r, tier, seed):
  hits = sum(1 for k in extra if k.startswith('_hit:'))
  extra['keypair_table_entries_hit'] = hits
  if tier == 'thorough':
    total = len(_kp_table())
    r.ev('keypair/table-coverage')
    if hits != total:
      r.violation('only %d of the %d table entries are reached by generating every first '
                  'seed byte x {2048,3072,4096}' % (hits, total),
                  {'fn': 'keypair', 'args': {'b0': 0, 'bits': 2048}})


# ---- EC validity / weak curve -----------------------------------------------------

def _named_curve_ref(L):
  return rec.Curve(int(L.mod), int(L.a), int(L.b), (int(L.g[0]), int(L.g[1])), int(L.n), L.h)


def case_ec(curve_type, xb, yb):
  """xb, yb: hex of the coordinate bytes."""
  w = world.load()
  x, y = bytes.fromhex(xb), bytes.fromhex(yb)
  k = art.ec_key(curve_type, x, y)
  L = w.ec_util.CURVE_FACTORY.get(curve_type)
  out = []
  st, ret = _check(w, w.ec_single_checks.CheckValidECKey, [k])
  xi, yi = art.b2i(x), art.b2i(y)
  if L is None:
    invalid = True
  else:
    c = _named_curve_ref(L)
    invalid = not (0 <= xi < c.p and 0 <= yi < c.p and c.on_curve((xi, yi)))
  if st == 'exc' or ret is not invalid or not _entry_is(k, 'CheckValidECKey', invalid):
    out.append('CheckValidECKey(curve_type=%d, x=%s.., y=%s..) returned %r; criterion '
               '(unknown curve / off-curve / out of range) gives %r' %
               (curve_type, xb[:16], yb[:16], ret, invalid))
  k2 = art.ec_key(curve_type, x, y)
  st, ret = _check(w, w.ec_single_checks.CheckWeakCurve, [k2])
  weak = L is not None and int(L.n).bit_length() < 224
  e = art.entry(k2.test_info, 'CheckWeakCurve')
  if st == 'exc' or ret is not weak or (L is not None and (e is None or e[0] != weak)) or \
      (L is None and e is not None and e[0]):
    out.append('CheckWeakCurve(curve_type=%d) returned %r, entry %r; criterion (order < 224 '
               'bits) gives %r' % (curve_type, ret, e, weak))
  return out


def ec_validity(seed):
  w = world.load()
  r = Result()
  for ct in list(range(0, 20)) + [20, 99, 2**31 - 1]:
    L = w.ec_util.CURVE_FACTORY.get(ct)
    if L is None:
      coords = [(1, 2), (0, 0), (2**255, 2**255)]
      pts = [(art.i2b(a), art.i2b(b)) for a, b in coords] + [(b'', b'')]
    else:
      c = _named_curve_ref(L)
      g = c.g
      g2 = c.add(g, g)
      ng = c.neg(g)
      k = nt.drbg_int('c06ec%d-%d' % (seed, ct), c.n.bit_length() - 2) + 2
      P = c.mul(g, k)
      coords = [g, g2, ng, P, (0, 0), (0, c.p), (c.p, 0), (g[0] + c.p, g[1]),
                (g[0], g[1] + c.p), (g[0] + c.p, g[1] + c.p), (g[0], g[1] + 1),
                (g[0] + 1, g[1]), (g[1], g[0]), (2**600 + 1, 5), (c.p - 1, c.p - 1), (1, 1),
                (g[0], c.p - g[1] + c.p)]
      pts = [(art.i2b(a), art.i2b(b)) for a, b in coords]
      pts += [(b'', b''), (b'\x00' * 3 + art.i2b(g[0]), b'\x00' + art.i2b(g[1])),
              (art.i2b(g[0]), b'')]
    for x, y in pts:
      for b in case_ec(ct, x.hex(), y.hex()):
        r.violation(b, {'fn': 'ec', 'args': {'curve_type': ct, 'xb': x.hex(), 'yb': y.hex()}})
      r.ev('ec/%s' % ('unknown' if L is None else 'known'), True)
  r.sample({'curve_types': '0..20, 99, 2^31-1', 'points_per_known_curve': 20})
  return r


def _cof_spec(c):
  return {'p': c.p, 'a': c.a_literal, 'b': c.b, 'gx': c.g[0], 'gy': c.g[1], 'n': c.n, 'h': c.h}


def case_plane(curve, x, y):
  w = world.load()
  c = rec.Curve(curve['p'], curve['a'], curve['b'], (curve['gx'], curve['gy']), curve['n'],
                curve['h'])
  L = w.ec_util.EcCurve('tiny', curve['a'], curve['b'], curve['p'], curve['gx'], curve['gy'],
                        curve['n'], curve['h'])
  exp = (0 <= x < c.p and 0 <= y < c.p and c.on_curve((x, y)) and
         c.mul((x, y), c.n) is None)
  st, got = guarded(L.IsValidPublicKey, (x, y))
  if st == 'exc' or bool(got) != exp:
    return ['IsValidPublicKey((%d,%d)) on y^2=x^3+%dx+%d mod %d (n=%d, h=%d) = %r; criterion '
            'gives %r' % (x, y, curve['a'], curve['b'], c.p, c.n, c.h, got, exp)]
  return []


def plane(curve):
  w = world.load()
  r = Result()
  c = rec.Curve(curve['p'], curve['a'], curve['b'], (curve['gx'], curve['gy']), curve['n'],
                curve['h'])
  L = w.ec_util.EcCurve('tiny', curve['a'], curve['b'], curve['p'], curve['gx'], curve['gy'],
                        curve['n'], curve['h'])
  sub = set()
  P = None
  for _ in range(c.n):
    P = c.add(P, c.g)
    if P is not None:
      sub.add(P)
  for x in range(2 * c.p):
    for y in range(2 * c.p):
      exp = (x, y) in sub
      st, got = guarded(L.IsValidPublicKey, (x, y))
      on = c.on_curve((x % c.p, y % c.p))
      r.ev('plane h=%d/%s' % (c.h, 'valid' if exp else ('oncurve-rejected' if on else 'off')),
           on)
      if st == 'exc' or bool(got) != exp:
        r.violation('IsValidPublicKey((%d,%d)) on y^2=x^3+%dx+%d mod %d (n=%d,h=%d) = %r; '
                    'criterion gives %r' % (x, y, curve['a'], curve['b'], c.p, c.n, c.h, got,
                                            exp),
                    {'fn': 'plane', 'args': {'curve': curve, 'x': x, 'y': y}})
        if len(r.violations) > 5:
          return r
  st, got = guarded(L.IsValidPublicKey, (None, None))
  r.ev('plane/infinity', True)
  if st == 'exc' or got:
    r.violation('IsValidPublicKey(INFINITY) = %r' % got,
                {'fn': 'plane', 'args': {'curve': curve, 'x': 0, 'y': 0}})
  r.sample({'tiny_curve': curve, 'plane': '[0,2p)^2'})
  return r


CASES = {'size': case_size, 'exponent': case_exponent, 'roca': case_roca,
         'openssl': case_openssl, 'keypair': case_keypair, 'keypair_neg': case_keypair_neg,
         'ec': case_ec, 'plane': case_plane}


def plan(tier, seed):
  thorough = tier == 'thorough'
  T = []
  for lo in range(64, 4201, 260):
    T.append(Task('sizes', 'sizes', {'lo': lo, 'hi': min(lo + 260, 4201)},
                  bound='every bit length 64..4200 x 4 moduli/encodings', weight=260 * 400))
  step = 8200
  for lo in range(0, 131081, step):
    T.append(Task('exponents', 'exponents', {'lo': lo, 'hi': min(lo + step, 131081)},
                  bound='every exponent 0..131080 (3 encodings near 65537) + 6 large ones',
                  weight=step * 30))
  T.append(Task('roca-residues', 'roca_residues', {'seed': seed},
                bound='every residue of every ROCA prime + structured products', weight=5e6))
  T.append(Task('roca-variant-residues', 'variant_residues', {'seed': seed},
                bound='every residue of every variant prime x 2 base assignments', weight=2e7))
  T.append(Task('openssl-storage-answers', 'openssl', {'seed': seed},
                bound='8 moduli x 9 list variants x 5 containers x 2 encodings', weight=1e6))
  b0s = list(range(256)) if thorough else list(range(seed % 8, 256, 8))
  for i in range(0, len(b0s), 2):
    T.append(Task('keypair-seeds', 'keypair',
                  {'b0s': b0s[i:i + 2], 'sizes_': [2048, 3072, 4096]},
                  complete=thorough,
                  bound='%s first seed bytes x sizes {2048,3072,4096}' %
                  ('all 256' if thorough else 'every 8th of the 256'), weight=4e7))
  T.append(Task('keypair-negative', 'keypair_negative', {'seed': seed}, complete=False,
                bound='msb collisions', weight=1e6))
  T.append(Task('ec-validity', 'ec_validity', {'seed': seed},
                bound='every curve id 0..20 + 2 unknown x coordinate alphabet', weight=2e6))
  for h in (1, 2, 3, 4):
    for shape in ('a-3', 'a0', 'generic'):
      cs = rec.tiny_curves(11 if not thorough else 23, 60, shape, h, 1, seed % 2)
      for c in cs:
        T.append(Task('tiny-plane', 'plane', {'curve': _cof_spec(c)},
                      bound='every (x,y) in [0,2p)^2 on tiny curves with cofactor 1..4',
                      weight=c.p**2 * 400))
  return T
