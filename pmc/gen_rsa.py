"""Deterministic generators of RSA moduli: healthy, degenerate and one per
documented weak family. Each returns a dict {n, p, q, family, ...}. No import
of the library under test (the unseeded-output list is passed in)."""
import functools

from pmc.refs import nt


def _mk(family, p, q, **kw):
  d = {'family': family, 'p': int(p), 'q': int(q), 'n': int(p) * int(q)}
  d.update(kw)
  return d


@functools.lru_cache(maxsize=None)
def strong(bits, label='0'):
  hb = bits // 2
  p = nt.rand_prime('strong-p-%s-%d' % (label, bits), bits - hb)
  q = nt.rand_prime('strong-q-%s-%d' % (label, bits), hb)
  while (p * q).bit_length() != bits or p == q:
    q = nt.next_prime(q + 2)
  return _mk('strong', p, q)


@functools.lru_cache(maxsize=None)
def fermat_close(bits, gap_bits, label='0'):
  """|p - q| about 2^gap_bits."""
  p = nt.rand_prime('fermat-%s-%d' % (label, bits), bits // 2)
  q = nt.next_prime(p + (1 << gap_bits) + nt.drbg_int('fermat-g-%s' % label, max(gap_bits - 1, 1)))
  return _mk('fermat', p, q, gap_bits=gap_bits)


def fermat_steps(p, q):
  """(p+q)/2 - ceil(sqrt(n)) for odd p, q."""
  n = p * q
  a = nt.isqrt(n)
  if a * a < n:
    a += 1
  return (p + q) // 2 - a


@functools.lru_cache(maxsize=None)
def high_low_equal(pbits, r, s, filler=0, label='0'):
  """Primes of pbits bits agreeing on (at least) the r lowest and s highest bits."""
  mid = pbits - r - s
  assert mid >= 2 and r >= 1 and s >= 1
  hi = nt.drbg_int('hle-hi-%s-%d-%d-%d' % (label, pbits, r, s), s) | (1 << (s - 1))
  lo = nt.drbg_int('hle-lo-%s-%d-%d-%d' % (label, pbits, r, s), r) | 1
  out = []
  for which in (0, 1):
    if filler == 0:
      m = nt.drbg_int('hle-m-%s-%d-%d-%d-%d' % (label, pbits, r, s, which), mid)
    elif filler == 1:
      m = (1 << mid) - 1 - 5 * which if which else 0
    elif filler == 2:
      m = int('01' * mid, 2) >> (mid + which)
    else:
      m = (1 << (mid - 1)) * which + (0 if which else 1)
    m &= (1 << mid) - 1
    for t in range(200000):
      mm = (m + t * (1 if which == 0 else -1)) % (1 << mid)
      cand = (hi << (pbits - s)) | (mm << r) | lo
      if nt.is_prime(cand) and cand not in out:
        out.append(cand)
        break
    else:
      return None
  p, q = sorted(out)
  return _mk('high-low-equal', p, q, r=r, s=s, pbits=pbits)


@functools.lru_cache(maxsize=None)
def upper_diff(L, k, idx=0):
  """q = next_prime(p + D), D = 2^(L-k) (k in 100,128,160,256,2,3), p an L-bit prime."""
  D = 1 << (L - k)
  while True:
    # a FIPS-style L-bit prime (>= sqrt(2) * 2^(L-1)) small enough that p + D still has L
    # bits: top bits 10111, i.e. p in [0.71875, 0.75) * 2^L
    v = nt.drbg_int('updiff-%d-%d-%d' % (L, k, idx), L) | 1
    v = (v & ((1 << (L - 5)) - 1)) | (0b10111 << (L - 5))
    p = nt.next_prime(v)
    q = nt.next_prime(p + D)
    if q.bit_length() == L and p.bit_length() == L:
      return _mk('upper-diff', p, q, L=L, k=k)
    idx += 1000


def unseeded(value, variant, psize, label='0'):
  """p = next_prime(variant of a listed unseeded output), q a fixed strong prime."""
  v = value
  if variant == 1:
    v |= 1 << (psize - 1)
  elif variant == 2:
    v |= (1 << (psize - 1)) | (1 << (psize - 2))
  p = nt.next_prime(v)
  q = nt.rand_prime('unseeded-q-%s-%d' % (label, psize), psize)
  while (p * q).bit_length() not in (2 * psize - 1, 2 * psize) or ((p * q).bit_length() + 1) // 2 != psize:
    q = nt.next_prime(q + 2)
  return _mk('unseeded', p, q, variant=variant)


def _repeat(word, w, bits):
  v = 0
  for i in range(0, bits + w, w):
    v |= word << i
  return v & ((1 << bits) - 1)


@functools.lru_cache(maxsize=None)
def bit_pattern(nbits, w, dev, idx=0):
  """One prime is a repetition of a w-bit word apart from `dev` low-order bits; the
  other prime is random. None if no such prime is found (e.g. exact repetitions when w
  divides the prime length are always composite)."""
  pbits = nbits // 2
  p = None
  for t in range(min(60, 2**max(w - 2, 0) * 2)):
    word = nt.drbg_int('bp-%d-%d-%d-%d-%d' % (nbits, w, dev, idx, t), w) | 1 | (1 << (w - 1))
    base = _repeat(word, w, pbits) | (1 << (pbits - 1))
    if dev == 0:
      if nt.is_prime(base):
        p = base
        break
      continue
    base = (base >> dev) << dev
    start = nt.drbg_int('bp-off-%d-%d-%d-%d-%d' % (nbits, w, dev, idx, t), dev) | 1
    for j in range(0, min(1 << dev, 1200), 2):
      c = base + (start + j) % (1 << dev)
      if c % 2 and nt.is_prime(c):
        p = c
        break
    if p:
      break
  if p is None:
    return None
  q = nt.rand_prime('bp-q-%d-%d-%d-%d' % (nbits, w, dev, idx), nbits - pbits)
  return _mk('bit-pattern', p, q, w=w, dev=dev, word=word)


@functools.lru_cache(maxsize=None)
def permuted_pattern(nbits, wsize, psize, idx=0):
  """Repetition of a psize-bit word with adjacent wsize-bit limbs swapped, low limb free."""
  pbits = nbits // 2
  t = 0
  while True:
    word = nt.drbg_int('pp-%d-%d-%d-%d-%d' % (nbits, wsize, psize, idx, t), psize) | 1
    base = _repeat(word, psize, pbits)
    limbs = [(base >> (i * wsize)) & ((1 << wsize) - 1) for i in range(pbits // wsize)]
    for i in range(0, len(limbs) - 1, 2):
      limbs[i], limbs[i + 1] = limbs[i + 1], limbs[i]
    v = 0
    for i, l in enumerate(limbs):
      v |= l << (i * wsize)
    v |= 1 << (pbits - 1)
    v = (v >> 16) << 16
    p = nt.next_prime(v)
    if p < v + (1 << 16):
      break
    t += 1
    if t > 200:
      return None
  q = nt.rand_prime('pp-q-%d-%d-%d-%d' % (nbits, wsize, psize, idx), nbits - pbits)
  return _mk('permuted-pattern', p, q, wsize=wsize, psize=psize)


@functools.lru_cache(maxsize=None)
def both_patterned(nbits, w, idx=0):
  """Both primes are exact repetitions of (different) w-bit words."""
  pbits = nbits // 2
  out = []
  t = 0
  while len(out) < 2:
    word = nt.drbg_int('both-%d-%d-%d-%d' % (nbits, w, idx, t), w) | 1 | (1 << (w - 1))
    c = _repeat(word, w, pbits) | (1 << (pbits - 1))
    t += 1
    if nt.is_prime(c) and c not in out:
      out.append(c)
    if t > min(4000, 2**(w + 1)):
      return None
  return _mk('both-patterned', out[0], out[1], w=w)


@functools.lru_cache(maxsize=None)
def low_hamming(nbits, weight, idx=0):
  pbits = nbits // 2
  out = []
  t = 0
  while len(out) < 2:
    v = (1 << (pbits - 1)) | 1
    k = 0
    while bin(v).count('1') < weight:
      pos = nt.drbg_int('lhw-%d-%d-%d-%d-%d' % (nbits, weight, idx, t, k), 16) % (pbits - 2) + 1
      v |= 1 << pos
      k += 1
    t += 1
    if nt.is_prime(v) and v not in out:
      out.append(v)
  return _mk('low-hamming-weight', out[0], out[1], weight=weight)


@functools.lru_cache(maxsize=None)
def pm1_smooth(nbits, both, idx=0):
  """p-1 and q-1 share a 2^20-smooth factor >= 2^60; p-1 is squarefree-smooth (every odd prime
  factor < 2^20 occurs once, so it divides the default Pollard product); q-1 is smooth too iff
  `both`, otherwise it has one large prime factor."""
  pbits = nbits // 2
  primes = nt.sieve(1 << 20)
  used = set()

  def pick(label, lo, hi):
    t = 0
    while True:
      r = primes[lo + nt.drbg_int('pm1-pick-%s-%d' % (label, t), 40) % (hi - lo)]
      t += 1
      if r not in used:
        used.add(r)
        return r

  shared = 1
  k = 0
  while shared.bit_length() <= 62:
    shared *= pick('shared-%d-%d-%d' % (nbits, idx, k), 1000, 60000)
    k += 1

  def smooth_prime(label):
    t = 0
    while True:
      mine = set()
      v = 2 * shared
      j = 0
      while v.bit_length() < pbits - 22:
        r = primes[200 + nt.drbg_int('pm1-%s-%d-%d' % (label, t, j), 40) % 80000]
        j += 1
        if r in used or r in mine:
          continue
        mine.add(r)
        v *= r
      for r in primes[::-1]:
        if r in used or r in mine:
          continue
        c = v * r + 1
        if c.bit_length() == pbits and nt.is_prime(c):
          return c
        if (v * r).bit_length() < pbits:
          break
      t += 1

  def half_smooth_prime(label):
    # q - 1 = 2 * shared * m with m a random integer (it has a large prime factor with
    # overwhelming probability; checked below)
    m = (3 << (pbits - 2)) // (2 * shared) + nt.drbg_int('pm1-m-%s' % label, 40)
    while True:
      c = 2 * shared * m + 1
      if c.bit_length() == pbits and nt.is_prime(c):
        rest = m
        for r in primes:
          while rest % r == 0:
            rest //= r
        if rest.bit_length() > 64:
          return c
      m += 1

  p = smooth_prime('p%d-%d' % (nbits, idx))
  q = smooth_prime('q%d-%d' % (nbits, idx)) if both else half_smooth_prime('q%d-%d' % (nbits, idx))
  return _mk('pollard-pm1', p, q, both=both, shared_bits=shared.bit_length())


def degenerate():
  """Moduli >= 2^63 that are not products of two distinct odd primes."""
  p64 = nt.rand_prime('deg-p64', 64)
  p65 = nt.rand_prime('deg-p65', 65)
  p1024 = nt.rand_prime('deg-p1024', 1024)
  p32 = nt.rand_prime('deg-p32', 33)
  out = [
      ('prime-64', p64), ('prime-65', p65), ('prime-2048', nt.rand_prime('deg-p2048', 2048)),
      ('square-66', p32 * p32), ('square-2048', p1024 * p1024), ('2p-65', 2 * p64),
      ('2p-1025', 2 * p1024), ('2^63', 1 << 63), ('2^64', 1 << 64), ('2^2048', 1 << 2048),
      ('2^64-1', (1 << 64) - 1), ('2^127-1', (1 << 127) - 1), ('2^2203-1', (1 << 2203) - 1),
      ('n=1mod8-prime', next(p for p in (nt.next_prime((1 << 64) + 8 * k) for k in range(1, 500))
                             if p % 8 == 1)),
      ('three-primes', p32 * nt.rand_prime('deg-q32', 33) * nt.rand_prime('deg-r32', 33)),
      ('cube', p32**3), ('odd-bitlen-2047', strong(2047)['n']),
      ('smooth', nt.prod(nt.SMALL_PRIMES[:40])),
  ]
  return out
