#!/bin/bash
# Offline setup: nothing to install; builds the native variants once and runs
# the shim self-test (import of every library module through the shims).
set -e
cd "$(dirname "$0")"
export PYTHONHASHSEED=0 PYTHONDONTWRITEBYTECODE=1
mkdir -p build evidence replays
/venv/bin/python -m pmc.selftest
