#!/bin/bash
# tools/wave.sh <prop> [more check ids]: run every mutant of mutants/<prop> (PAR at a time);
# results are appended to /tmp/wave-<prop>.log as they finish and printed at the end.
P=$1; shift; IDS="${*:-$P}"
LOG=/tmp/wave-$P.log; : > $LOG
ls /verif/mutants/$P/*.diff | xargs -P ${PAR:-4} -I{} sh -c "/verif/tools/mutant.sh {} $IDS 2>&1 | grep -E '^(DETECTED|MISSED|PATCH)' >> $LOG"
cat $LOG
