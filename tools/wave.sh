#!/bin/bash
# tools/wave.sh <prop> [more check ids]: run every mutant of mutants/<prop> (4 at a time)
P=$1; shift; IDS="${*:-$P}"
ls /verif/mutants/$P/*.diff | xargs -P ${PAR:-4} -I{} /verif/tools/mutant.sh {} $IDS 2>&1 | grep -E "^(DETECTED|MISSED|PATCH)"
