#!/venv/bin/python
"""mkmut.py <prop> <name> <repo-relative-file> <old> <new> [count]
Writes /verif/mutants/<prop>/<name>.diff (a unified diff against /repo's tree)."""
import difflib, os, sys
prop, name, rel, old, new = sys.argv[1:6]
src = open(os.path.join('/repo', rel)).read()
old = old.encode().decode('unicode_escape'); new = new.encode().decode('unicode_escape')
if src.count(old) < 1:
  sys.exit('pattern not found: %r' % old)
if src.count(old) > 1 and len(sys.argv) < 7:
  sys.exit('pattern ambiguous (%d): %r' % (src.count(old), old))
dst = src.replace(old, new, 1)
d = ''.join(difflib.unified_diff(src.splitlines(True), dst.splitlines(True), 'a/' + rel, 'b/' + rel))
os.makedirs('/verif/mutants/' + prop, exist_ok=True)
open('/verif/mutants/%s/%s.diff' % (prop, name), 'w').write(d)
print('wrote', name)
