#!/bin/bash
# tools/seeded.sh <out-dir-with patch.diff+demo.py> <seed-id> <property> <check ids...>
# Confirms an independently written property-breaking change in a fresh scratch worktree:
#  1. the patch applies to /repo HEAD, 2. the pinned baseline (74 tests) still passes,
#  3. the demo fails with the patch and passes without, 4. which of our checks report it.
# Writes /verif/seeded/<seed-id>/{patch.diff,demo.py,notes.md,meta.json}; removes the worktree.
set -u
SRC=$1; ID=$2; PROP=$3; shift 3
WT=$(mktemp -d /tmp/seedchk-XXXXXX); rmdir $WT
git -C /repo worktree add -q "$WT" HEAD || exit 3
trap 'git -C /repo worktree remove --force "$WT" 2>/dev/null; rm -rf "$WT"' EXIT
cd "$WT"
demo_clean=$( /venv/bin/python "$SRC/demo.py" >/dev/null 2>&1; echo $? )
if ! git apply "$SRC/patch.diff"; then echo "PATCH-FAILED"; exit 3; fi
demo_patched=$( /venv/bin/python "$SRC/demo.py" >/tmp/seed-demo-$ID.out 2>&1; echo $? )
base=$(/venv/bin/python -m pytest -q -p no:cacheprovider --timeout=900 --continue-on-collection-errors 2>&1 | tail -1)
echo "demo clean rc=$demo_clean patched rc=$demo_patched; baseline: $base"
results=""
for id in "$@"; do
  out=$(cd /verif && timeout ${MUT_TIMEOUT:-1800} env VERIF_REPO="$WT" VERIF_OUT="$WT/.verif-out" ./check "$id" --tier "${TIER:-quick}" 2>&1)
  rc=$?
  if [ $rc = 1 ] && echo "$out" | grep -q "^VIOLATION property=$id"; then
    v=$(echo "$out" | grep -m1 'violation:' | cut -c1-300)
    echo "DETECTED $id: $v"; results="$results{\"check\":\"$id\",\"detected\":true,\"first\":$(python3 -c 'import json,sys; print(json.dumps(sys.argv[1]))' "$v")},"
  else
    echo "MISSED $id rc=$rc: $(echo "$out" | grep -v '^W' | tail -1 | cut -c1-200)"; results="$results{\"check\":\"$id\",\"detected\":false,\"rc\":$rc},"
  fi
done
mkdir -p /verif/seeded/$ID
cp "$SRC/patch.diff" "$SRC/demo.py" /verif/seeded/$ID/
[ -f "$SRC/notes.md" ] && cp "$SRC/notes.md" /verif/seeded/$ID/
python3 - "$ID" "$PROP" "$demo_clean" "$demo_patched" "$base" "[${results%,}]" <<'PY'
import json,sys
i,prop,dc,dp,base,res=sys.argv[1:7]
json.dump({"seed_id":i,"property":prop,"demo_rc_without_patch":int(dc),"demo_rc_with_patch":int(dp),
           "baseline_with_patch":base,"checks_run":json.loads(res),
           "what_ran":"tools/seeded.sh: fresh worktree of /repo HEAD under /tmp, git apply patch.diff, demo.py, pinned pytest baseline, ./check <id> --tier quick with VERIF_REPO=<worktree>; worktree removed afterwards",
           "needs_to_manifest":"see notes.md"}, open('/verif/seeded/%s/meta.json'%i,'w'), indent=1)
PY
