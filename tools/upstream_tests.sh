#!/bin/bash
# Runs upstream's test modules that need protoc/pybind11 through the pmc shims.
# Usage: tools/upstream_tests.sh [repo-dir] [pytest args...]
R=${1:-/repo}; shift
cd /verif
export VERIF_REPO=$R PYTHONPATH=/verif:$R PYTHONHASHSEED=0
mods="ec_util_test paranoid_ec_test paranoid_ecdsa_test hidden_number_problem_test cr50_u2f_weakness_test paranoid_rsa_test paranoid_base_test randomness_tests/nist_suite_test randomness_tests/berlekamp_massey_test randomness_tests/extended_nist_suite_test randomness_tests/cc_util/pybind/berlekamp_massey_test"
args=""
for m in $mods; do args="$args $R/paranoid_crypto/lib/$m.py"; done
cd $R && /venv/bin/python -m pytest -q -p no:cacheprovider -p pmc.pytest_shim --timeout=1800 "$@" $args 2>&1 | tail -15
