#!/bin/bash
# tools/mutant.sh <patch-file|-e 'py-expr'> <check ids...>
# Applies a patch to a scratch copy of /repo (never /repo itself), optionally runs
# the pinned baseline there (BASELINE=1), runs the named checks against it, and
# removes the scratch copy.  Prints one DETECTED/MISSED line per check.
set -u
PATCH="$(readlink -f "$1")"; shift
D=$(mktemp -d /tmp/pmc-mut-XXXXXX)
trap 'rm -rf "$D"' EXIT
rsync -a --exclude .git /repo/ "$D/repo/"
if ! (cd "$D/repo" && patch -p1 -s < "$PATCH"); then echo "PATCH-FAILED $PATCH"; exit 3; fi
if [ "${BASELINE:-0}" = 1 ]; then
  (cd "$D/repo" && /venv/bin/python -m pytest -q -p no:cacheprovider --timeout=900 \
     --continue-on-collection-errors -x -q 2>&1 | tail -3) | grep -v "^W"
fi
for id in "$@"; do
  out=$(cd /verif && timeout ${MUT_TIMEOUT:-1500} env VERIF_REPO="$D/repo" VERIF_OUT="$D/out" ./check "$id" --tier "${TIER:-quick}" ${ONLY:+--only "$ONLY"} 2>&1)
  rc=$?
  if [ $rc = 1 ] && echo "$out" | grep -q "^VIOLATION property=$id"; then
    echo "DETECTED $id $(basename "$PATCH"): $(echo "$out" | grep -m1 'violation:' | cut -c1-220)"
  else
    echo "MISSED   $id $(basename "$PATCH") rc=$rc: $(echo "$out" | grep -v '^W' | tail -2 | cut -c1-300)"
  fi
done
